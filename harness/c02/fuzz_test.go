package c02

import (
	"testing"

	"pgregory.net/rapid"
)

// FuzzProp drives the same property with Go's coverage-guided fuzzer (thorough tier): the fuzzer's bytes are the
// bit stream rapid draws from, so coverage feedback steers the table/probe generator.
func FuzzProp(f *testing.F) { f.Fuzz(rapid.MakeFuzz(prop)) }
