// C02 — path parameters are exactly the substrings the pattern captured.
package c02

import (
	"fmt"
	"net/http"
	"net/http/httptest"
	"net/url"
	"reflect"
	"strings"
	"testing"

	"github.com/gookit/rux"
	"pgregory.net/rapid"

	"verifharness/ev"
	"verifharness/model"
)

func TestMain(m *testing.M) { ev.Main(m) }

type seen struct {
	name   string
	params map[string]string
	byGet  map[string]string
	n      int
	mutate bool
}

func build(tb *model.Table, s *seen) *rux.Router {
	r := tb.Opts.NewRouter()
	model.Register(r, tb.Routes, func(d model.RouteDef) rux.HandlerFunc {
		name := d.Name()
		names := d.P.VarNames()
		return func(c *rux.Context) {
			s.n++
			s.name = name
			s.params = map[string]string{}
			for k, v := range c.Params {
				s.params[k] = v
			}
			s.byGet = map[string]string{}
			for _, n := range names {
				s.byGet[n] = c.Param(n)
			}
			// what a handler does to its own Params afterwards must not reach any later request
			if s.mutate && c.Params != nil { // (static routes get a nil map: nothing to write into)
				for k := range c.Params {
					c.Params[k] = "overwritten-by-an-earlier-handler"
				}
				c.Params["added-by-an-earlier-handler"] = "x"
			}
		}
	})
	return r
}

// reqURL is the request URL for a path; under UseEncodedPath the path is an escaped path already and the URL is parsed
// from it (Router.Match gets the same string).
func reqURL(tb *model.Table, path string) *url.URL {
	if tb.Opts.EncodedPath {
		if u, err := url.ParseRequestURI(path); err == nil && u.EscapedPath() == path {
			return u
		}
	}
	return &url.URL{Path: path}
}

// wireForms gives request-line spellings of path that decode to it but are not the canonical escaping: the last (and
// the first) ASCII letter or digit written as %XX, and the canonical escapes in lower-case hex.
func wireForms(path string) []string {
	esc := (&url.URL{Path: path}).EscapedPath()
	var out []string
	alnum := func(c byte) bool { return (c >= 'a' && c <= 'z') || (c >= 'A' && c <= 'Z') || (c >= '0' && c <= '9') }
	first, last := -1, -1
	for i := 0; i < len(esc); i++ {
		if esc[i] == '%' {
			i += 2
			continue
		}
		if alnum(esc[i]) {
			if first < 0 {
				first = i
			}
			last = i
		}
	}
	for _, i := range []int{last, first} {
		if i >= 0 {
			out = append(out, esc[:i]+fmt.Sprintf("%%%02X", esc[i])+esc[i+1:])
		}
	}
	if strings.Contains(esc, "%") {
		b := []byte(esc)
		for i := 0; i+2 < len(b); i++ {
			if b[i] == '%' {
				b[i+1], b[i+2] = lowerHex(b[i+1]), lowerHex(b[i+2])
				i += 2
			}
		}
		if string(b) != esc {
			out = append(out, string(b))
		}
	}
	return out
}

func lowerHex(c byte) byte {
	if c >= 'A' && c <= 'F' {
		return c + 'a' - 'A'
	}
	return c
}

func copyPs(ps rux.Params) map[string]string {
	m := map[string]string{}
	for k, v := range ps {
		m[k] = v
	}
	return m
}

// checkProbe returns "" or a failure text. vals/target describe how the path was constructed (may be nil/-1).
func checkProbe(r *rux.Router, s *seen, tb *model.Table, method, path string, target int, vals map[string]string, k int) string {
	norm := model.Normalize(path, tb.Opts.Strict)
	var first map[string]string
	for rep := 0; rep < 2; rep++ { // second lookup may be a cache hit
		rt, ps, _ := r.Match(method, path)
		idx := model.RouteIndex(rt)
		if idx < 0 {
			if len(ps) != 0 {
				return fmt.Sprintf("no route but params %v", ps)
			}
			return ""
		}
		d := tb.Routes[idx]
		ctx := fmt.Sprintf("Match(%s,%q) norm=%q lookup#%d route %s\n table: %s", method, path, norm, rep, d, tb)
		if d.P.IsStatic() {
			if len(ps) != 0 {
				return fmt.Sprintf("static route exposes parameters %v: %s", ps, ctx)
			}
			// ... and its handlers see none, whatever earlier handlers did with theirs
			s.n = 0
			r.ServeHTTP(httptest.NewRecorder(), &http.Request{Method: method, URL: reqURL(tb, path), Header: http.Header{}})
			if s.n != 1 || s.name != d.Name() || len(s.params) != 0 {
				return fmt.Sprintf("ServeHTTP: handler of %q ran %d times and saw Params %v on a static route: %s", s.name, s.n, s.params, ctx)
			}
			continue
		}
		got := copyPs(ps)
		if err := model.CheckParams(d.P, norm, got); err != nil {
			return fmt.Sprintf("%v: %s", err, ctx)
		}
		// exact values: only when normalisation did not touch the constructed path
		if idx == target && vals != nil && d.P.UniqueDecomposition() && d.P.Build(vals, k) == norm {
			for k, want := range vals {
				if got[k] != want {
					return fmt.Sprintf("unique decomposition: %s=%q, path was constructed from %q: %s", k, got[k], want, ctx)
				}
			}
		}
		if rep == 0 {
			first = got
		} else if !reflect.DeepEqual(first, got) {
			return fmt.Sprintf("second lookup gives %v, first gave %v: %s", got, first, ctx)
		}
		// the map Match returned belongs to the caller: what the caller does to it must not reach later lookups
		if s.mutate && ps != nil {
			for k := range ps {
				ps[k] = "overwritten-by-the-caller-of-Match"
			}
			ps["added-by-the-caller-of-Match"] = "x"
		}
		// what the handler sees
		s.n = 0
		rec := httptest.NewRecorder()
		r.ServeHTTP(rec, &http.Request{Method: method, URL: reqURL(tb, path), Header: http.Header{}})
		if s.n != 1 || s.name != d.Name() {
			return fmt.Sprintf("ServeHTTP ran handler of %q %d times: %s", s.name, s.n, ctx)
		}
		if !reflect.DeepEqual(s.params, got) {
			return fmt.Sprintf("handler saw Params %v, Match reported %v: %s", s.params, got, ctx)
		}
		// the same request as it comes off the wire when the client escaped more than it had to (an unreserved character
		// written as %XX, lower-case hex digits): net/url then keeps the wire form in URL.RawPath beside the decoded
		// URL.Path.  Without UseEncodedPath the router works on the decoded path: same route, same parameter values
		if !tb.Opts.EncodedPath {
			for _, raw := range wireForms(path) {
				u, err := url.ParseRequestURI(raw)
				if err != nil || u.Path != path || u.RawPath == "" {
					continue
				}
				s.n = 0
				r.ServeHTTP(httptest.NewRecorder(), &http.Request{Method: method, URL: u, RequestURI: raw, Header: http.Header{}})
				if s.n != 1 || s.name != d.Name() || !reflect.DeepEqual(s.params, got) {
					return fmt.Sprintf("request line %q (URL.Path %q, RawPath %q): handler of %q ran %d times with Params %v, the decoded path alone gives %v: %s", raw, u.Path, u.RawPath, s.name, s.n, s.params, got, ctx)
				}
				ev.Class("request-with-needless-escapes-in-the-request-line(RawPath set, UseEncodedPath off)")
			}
		}
		// the same request arriving for /pre<path> and handed on by http.StripPrefix: the router sees <path> in the
		// request's URL (RequestURI still says /pre<path>, as a server sets it) - same route, same parameters
		if u := reqURL(tb, path); strings.HasPrefix(path, "/") {
			pre := &http.Request{Method: method, URL: &url.URL{Path: "/pre" + u.Path, RawPath: ""}, Header: http.Header{}, RequestURI: "/pre" + u.EscapedPath()}
			if u.RawPath != "" || tb.Opts.EncodedPath {
				pre.URL.RawPath = "/pre" + u.EscapedPath()
			}
			s.n = 0
			http.StripPrefix("/pre", r).ServeHTTP(httptest.NewRecorder(), pre)
			if s.n != 1 || s.name != d.Name() || !reflect.DeepEqual(s.params, got) {
				return fmt.Sprintf("behind http.StripPrefix(/pre): handler of %q ran %d times with Params %v, directly %v: %s", s.name, s.n, s.params, got, ctx)
			}
		}
		for k, v := range got {
			if s.byGet[k] != v {
				return fmt.Sprintf("Context.Param(%q)=%q, Match reported %q: %s", k, s.byGet[k], v, ctx)
			}
		}
	}
	return ""
}

// strayCapturingGroup offers a route whose variable regex hides a capturing group behind a non-capturing one.  rux
// refuses such definitions (C13); should one be accepted, the parameters must still be the captured path substrings.
func strayCapturingGroup(r *rux.Router) string {
	var a, b string
	var ran bool
	accepted := true
	func() {
		defer func() {
			if recover() != nil {
				accepted = false
			}
		}()
		r.GET("/zz-stray/{a:(?:\\d+)(-\\w+)?}/{b}", func(c *rux.Context) { ran, a, b = true, c.Param("a"), c.Param("b") })
	}()
	if !accepted {
		return ""
	}
	r.ServeHTTP(httptest.NewRecorder(), &http.Request{Method: "GET", URL: &url.URL{Path: "/zz-stray/12-ab/zz"}, Header: http.Header{}})
	if !ran || a != "12-ab" || b != "zz" {
		return fmt.Sprintf("route /zz-stray/{a:(?:\\d+)(-\\w+)?}/{b} was accepted; GET /zz-stray/12-ab/zz ran=%v a=%q b=%q, the captured substrings are a=12-ab b=zz", ran, a, b)
	}
	return ""
}

func prop(t *rapid.T) {
	ev.Case()
	tb := &model.Table{}
	tb.Opts.Strict = rapid.Bool().Draw(t, "strict")
	if rapid.Bool().Draw(t, "caching") {
		tb.Opts.Caching = true
		tb.Opts.CacheCap = rapid.IntRange(0, 3).Draw(t, "cap")
	}
	tb.Opts.Fallback = rapid.IntRange(0, 4).Draw(t, "fallback") == 0
	// UseEncodedPath: the router matches the escaped path, and the parameters are substrings of THAT string
	tb.Opts.EncodedPath = rapid.IntRange(0, 3).Draw(t, "useEncodedPath") == 0
	tb.Opts.Via, tb.Opts.Order = model.GenVia(t), model.GenOrder(t)
	cfg := model.TableCfg{MaxRoutes: ev.Pick(4, 8), Gen: model.GenCfg{MaxSegs: ev.Pick(4, 5), MaxOpt: ev.Pick(2, 3), RichLits: true}, Fallback: tb.Opts.Fallback}
	tb.Routes = model.GenRoutes(t, cfg, tb.Opts.Strict)
	if len(tb.Routes) == 0 {
		t.Skip("empty table")
	}
	if model.LongPrefix(t, tb.Routes, 6) {
		ev.Class("table:all-routes-below-a-long-first-segment")
	}
	s := &seen{mutate: rapid.Bool().Draw(t, "handlersMutateParams")}
	if s.mutate {
		ev.Class("handlers-mutate-their-params")
	}
	r := build(tb, s)
	if rapid.IntRange(0, 7).Draw(t, "strayGroup") == 0 {
		if msg := strayCapturingGroup(r); msg != "" {
			t.Fatalf("%s", msg)
		}
	}
	np := rapid.IntRange(1, 8).Draw(t, "nprobes")
	for i := 0; i < np; i++ {
		path, kind, target, vals, k := model.GenProbePath(t, tb.Routes)
		method := "GET"
		if target >= 0 {
			method = rapid.SampledFrom(tb.Routes[target].Methods).Draw(t, "method")
		}
		if rapid.IntRange(0, 9).Draw(t, "head") == 0 {
			method = "HEAD"
		}
		if tb.Opts.EncodedPath {
			esc := (&url.URL{Path: path}).EscapedPath()
			if u := reqURL(tb, esc); u.EscapedPath() != esc || !strings.HasPrefix(esc, "/") {
				ev.Class("skipped:escaped-path-does-not-survive-parsing")
				continue
			}
			if esc != path {
				ev.Class("encoded-path-with-escapes")
			}
			path = esc
		}
		if !model.Stable(path, tb.Opts.Strict) {
			ev.Class("skipped:unstable-path")
			continue
		}
		ev.Eval()
		res := tb.Resolve(method, path)
		ev.Class("probe:" + kind)
		ev.Class("result:" + res.Kind.String())
		if res.Route >= 0 {
			p := tb.Routes[res.Route].P
			nv := len(p.Vars())
			inSeg := false
			for _, v := range p.Segs {
				if v.V != nil && v.Pre+v.Post != "" {
					inSeg = true
				}
			}
			switch {
			case p.IsStatic():
				ev.Class("route:static")
			default:
				ev.Class(fmt.Sprintf("route:vars=%d", nv))
				if p.UniqueDecomposition() && res.Route == target && vals != nil && p.Build(vals, k) == res.Norm {
					ev.Class("oracle:exact-values")
				}
			}
			if nv >= 2 || inSeg || p.Opt != nil || (tb.Opts.Caching && tb.Opts.CacheCap > 0 && !p.IsStatic()) {
				ev.NonTrivial(tb.String()+"|"+method+"|"+path, func() string {
					return fmt.Sprintf("%s %q -> %s (%s, built from %v) | %s", method, path, tb.Routes[res.Route], res.Kind, vals, tb.Opts)
				})
			}
		}
		if msg := checkProbe(r, s, tb, method, path, target, vals, k); msg != "" {
			t.Fatalf("%s", msg)
		}
		// the same path again under the sibling method (GET <-> HEAD share routes through the HEAD fallback, and
		// share whatever the cache keeps for the path)
		if sib := map[string]string{"GET": "HEAD", "HEAD": "GET"}[method]; sib != "" && rapid.Bool().Draw(t, "siblingMethod") {
			ev.Class("probe:sibling-method-on-the-same-path")
			if msg := checkProbe(r, s, tb, sib, path, target, vals, k); msg != "" {
				t.Fatalf("%s", msg)
			}
			if msg := checkProbe(r, s, tb, method, path, target, vals, k); msg != "" {
				t.Fatalf("%s", msg)
			}
		}
	}
}

func TestProp(t *testing.T) { rapid.Check(t, prop) }

// propGlobalVarRedefined: global path variables (SetGlobalVar) are read when a route is registered.  An application
// (or a test suite) that redefines one and then builds another router with the same route path gets routes that follow
// the definition in force at THEIR registration: the parameter value handed out always satisfies that regex, and a
// path that does not is not matched.
func propGlobalVarRedefined(t *rapid.T) {
	ev.Case()
	const name = "zzgv" // used by this property only
	type def struct {
		re   string
		good []string
		bad  []string
	}
	menu := []def{
		{`\d+`, []string{"12", "007"}, []string{"ab", "1a"}},
		{`[a-z]+`, []string{"ab", "z"}, []string{"12", "a1"}},
		{`[a-z]\d`, []string{"a1", "z9"}, []string{"ab", "12", "a12"}},
		{`\w{2}`, []string{"ab", "12", "a1"}, []string{"z", "007"}},
	}
	path := rapid.SampledFrom([]string{"/gv/{zzgv}", "/gv/{zzgv}/tail", "/{zzgv}.html", "/gv[/{zzgv}]"}).Draw(t, "routePath")
	steps := rapid.IntRange(2, 4).Draw(t, "redefinitions")
	for i := 0; i < steps; i++ {
		d := rapid.SampledFrom(menu).Draw(t, "definition")
		rux.SetGlobalVar(name, d.re)
		var opts []func(*rux.Router)
		if rapid.Bool().Draw(t, "caching") {
			opts = append(opts, rux.EnableCaching)
		}
		r := rux.New(opts...)
		r.GET(path, func(c *rux.Context) { c.WriteString("v=" + c.Param(name)) })
		mk := func(v string) string {
			p := strings.Replace(strings.Replace(path, "[/{zzgv}]", "/"+v, 1), "{zzgv}", v, 1)
			return p
		}
		for _, v := range d.good {
			ev.Eval()
			rec := httptest.NewRecorder()
			r.ServeHTTP(rec, httptest.NewRequest("GET", mk(v), nil))
			if rec.Code != 200 || rec.Body.String() != "v="+v {
				t.Fatalf("step %d: global var %s is %q when %s is registered; GET %s answers %d %q, want 200 %q", i, name, d.re, path, mk(v), rec.Code, rec.Body.String(), "v="+v)
			}
		}
		for _, v := range d.bad {
			ev.Eval()
			rec := httptest.NewRecorder()
			r.ServeHTTP(rec, httptest.NewRequest("GET", mk(v), nil))
			if rec.Code == 200 {
				t.Fatalf("step %d: global var %s is %q when %s is registered; GET %s is answered 200 %q although %q does not satisfy it", i, name, d.re, path, mk(v), rec.Body.String(), v)
			}
		}
		if i > 0 {
			ev.NonTrivial(fmt.Sprint(path, i, d.re), func() string { return fmt.Sprintf("%s re-registered on a new router after %s was redefined to %q", path, name, d.re) })
		}
	}
	ev.Class("global-variable-redefined-between-routers")
}

func TestPropGlobalVarRedefined(t *testing.T) { rapid.Check(t, propGlobalVarRedefined) }
