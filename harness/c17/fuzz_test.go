package c17

import (
	"net/http"
	"net/http/httptest"
	"net/url"
	"testing"
)

// FuzzStatic: bytes -> handler kind, prefix, extension list, raw request path. Oracle inside the target:
// no secret marker in the response, file bytes only from under the root (see check), never a panic.
func FuzzStatic(f *testing.F) {
	for i, p := range []string{"/assets/a.css", "/assets/../secret.txt", "/assets/%2e%2e/secret.txt", "/assets/..%2fsecret.txt", "/assets/sub/../../secret.txt", "/assets//a.css",
		"/assets/sub/", "/assets/index.html", "/assets/a.css/", "/assets/..\\secret.txt", "/assets/\x00", "/assets/.../a.css", "/assets/../rootx.css", "/assets/../sibling/leak.js", "/assets/./b.js", "/assets/sub/deep/../c.css"} {
		f.Add(byte(i), p)
		f.Add(byte(i+5), p)
	}
	kinds := []string{"StaticDir", "StaticFS", "StaticFiles", "StaticFile"}
	exts := []string{"css|js", "html", "css", "js|html|txt"}
	f.Fuzz(func(t *testing.T, sel byte, raw string) {
		if len(raw) > 400 {
			return
		}
		s := setup{kind: kinds[int(sel)%4], prefix: "/assets", exts: exts[int(sel>>2)%4], encoded: sel&16 != 0}
		if s.kind == "StaticFile" {
			s.prefix = "/assets/one.css"
		}
		r := s.router()
		us := []*url.URL{{Path: raw}}
		if u, err := url.ParseRequestURI(raw); err == nil {
			us = append(us, u)
		}
		if sel&32 != 0 {
			us = append(us, &url.URL{Path: secretAbs}, &url.URL{Path: "/assets" + secretAbs}, &url.URL{Path: "/assets/" + raw + "/../../secret.txt"})
		}
		for _, u := range us {
			orig := *u
			rec := httptest.NewRecorder()
			r.ServeHTTP(rec, &http.Request{Method: "GET", URL: u, Header: http.Header{}, Proto: "HTTP/1.1", ProtoMajor: 1, ProtoMinor: 1})
			if msg := check(s, &orig, rec); msg != "" {
				t.Fatalf("%s: %s request %q", msg, s, orig.Path)
			}
		}
	})
}
