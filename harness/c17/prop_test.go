// C17 — static file handlers never serve anything outside their root.
package c17

import (
	"fmt"
	"io"
	"net/http"
	"net/http/httptest"
	"net/url"
	"os"
	"path"
	"path/filepath"
	"regexp"
	"strings"
	"testing"

	"github.com/gookit/rux"
	"pgregory.net/rapid"

	"verifharness/ev"
	"verifharness/model"
)

var (
	sandbox   string // <sandbox>/parent/root is the served root
	root      string
	root2     string            // a second served root (another mount): for the first mount its files are "outside the root"
	secrets   []string          // markers that must never appear in a response
	inRoot    map[string]string // relative path below root -> content
	secretAbs string
)

func TestMain(m *testing.M) {
	base := os.Getenv("VERIF_SANDBOX")
	if base == "" {
		base = os.TempDir()
	}
	_ = os.MkdirAll(base, 0o755)
	var err error
	sandbox, err = os.MkdirTemp(base, "c17-sandbox-")
	if err != nil {
		fmt.Println("cannot create sandbox:", err)
		os.Exit(2)
	}
	build()
	buildRelative()
	code := m.Run()
	ev.Dump()
	_ = os.RemoveAll(sandbox)
	for _, d := range decoys {
		_ = os.RemoveAll(d)
	}
	os.Exit(code)
}

func write(p, content string) {
	_ = os.MkdirAll(filepath.Dir(p), 0o755)
	if err := os.WriteFile(p, []byte(content), 0o644); err != nil {
		panic(err)
	}
}

func build() {
	tag := filepath.Base(sandbox)
	parent := filepath.Join(sandbox, "parent")
	root = filepath.Join(parent, "root")
	m1, m2, m3, m4 := "SECRETNAME"+tag, "SECRET-A-"+tag, "SECRET-B-"+tag, "SECRET-C-"+tag
	secrets = []string{m1, m2, m3, m4}
	write(filepath.Join(parent, "secret-"+m1+".css"), m2)
	secretAbs = filepath.Join(parent, "secret.txt")
	write(secretAbs, m3)
	write(filepath.Join(parent, "sibling", "leak.js"), m4)
	write(filepath.Join(parent, "rootx.css"), m4) // shares the root's name as a prefix
	root2 = filepath.Join(parent, "root.")        // its name differs from the first root's by a trailing dot only
	for _, f := range []string{"a.css", "b.js", "f1.txt", "index.html", "sub/c.css", "only2.js"} {
		write(filepath.Join(root2, filepath.FromSlash(f)), "ROOT2FILE<"+f+">"+tag)
	}
	inRoot = map[string]string{}
	for _, f := range []string{"a.css", "b.js", "index.html", "page.html", "my file.css", "dots..css", "noext", "sub/c.css", "sub/index.html", "sub/deep/d.js", "sub/deep/e.txt", "x.css.bak", "up..js",
		"lib.js/index.html", "lib.js/inner.css", "style.css/readme.txt", "sub/chart.js/index.html", // directories named like files
		"accesscss", "passwdjs", "style.scss", "worker.mjs", "sub/config.cjs", "x.js.njs", "page.xhtml", "notes.md", // names that only END in the letters of an extension
		"page.htm", "x.cs", "a.j", "b.s", "c.ss", "d.tx", "e.tml", "f.s|j", "sub/g.ht",
		"docs/a.css", "docs/b.js", "docs/f1.txt", // the same names as in the second root (for a second mount nested below the first)
		longJS} { // a file name of 250 bytes // extensions that are PART of an allowed one, or of the list's text
		inRoot[f] = "ROOTFILE<" + f + ">" + tag
		write(filepath.Join(root, filepath.FromSlash(f)), inRoot[f])
	}
}

// longJS is a legal file name so long that method + prefix + name exceed 255 bytes.
var longJS = strings.Repeat("long-name-", 24) + "file.js"

type setup struct {
	kind       string // StaticDir, StaticFS, StaticFiles, StaticFile
	prefix     string
	exts       string
	encoded    bool
	relative   bool   // the root is given relative to the working directory ("../../sandbox/.../root")
	second     string // non-empty: a second mount (StaticDir or StaticFiles) of root2 under this prefix
	cacheCap   int    // > 0: route caching with this capacity
	globalFile bool   // a global path var named "file" is registered (SetGlobalVar) - the handlers' own regex must win
	group      string // non-empty: the mount is registered inside Group(group, ...)
}

// full is the URL prefix the mount answers under.
func (s setup) full() string { return s.group + s.prefix }

// relRoot is the root relative to the working directory; decoys with secret markers sit where a sloppy resolution of
// that relative path would end up (leading "../" dropped, or only its last element kept).
var relRoot string

func buildRelative() {
	wd, err := os.Getwd()
	if err != nil {
		return
	}
	rel, err := filepath.Rel(wd, root)
	if err != nil || !strings.HasPrefix(rel, "..") {
		return
	}
	relRoot = rel
	stripped := rel
	for strings.HasPrefix(stripped, "../") {
		stripped = stripped[3:]
	}
	for _, decoy := range []string{filepath.Join(wd, stripped), filepath.Join(wd, filepath.Base(root)), filepath.Join(wd, strings.TrimLeft(rel, "./"))} {
		if strings.HasPrefix(decoy, root) {
			continue
		}
		// remember the top-most directory this creates below the working directory, for removal
		relDecoy, _ := filepath.Rel(wd, decoy)
		top := filepath.Join(wd, strings.Split(filepath.ToSlash(relDecoy), "/")[0])
		if _, err := os.Stat(top); err == nil {
			continue // something of that name is already there: leave it alone
		}
		for f := range inRoot {
			if strings.Contains(f, "/") {
				continue
			}
			write(filepath.Join(decoy, f), secrets[1]+" decoy "+f)
		}
		decoys = append(decoys, top)
	}
}

var decoys []string

func (s setup) String() string {
	return fmt.Sprintf("%s(prefix=%q exts=%q relativeRoot=%v) UseEncodedPath=%v secondMount=%q cache=%d globalVar(file)=%v group=%q", s.kind, s.prefix, s.exts, s.relative, s.encoded, s.second, s.cacheCap, s.globalFile, s.group)
}

func (s setup) router() *rux.Router {
	var opts []func(*rux.Router)
	if s.encoded {
		opts = append(opts, rux.UseEncodedPath)
	}
	if s.cacheCap > 0 {
		opts = append(opts, rux.CachingWithNum(uint16(s.cacheCap)))
	}
	r := rux.New(opts...)
	if s.cacheCap%2 == 0 {
		// a logging middleware reads the path parameters (and other getters) before the static handler runs
		r.Use(func(c *rux.Context) {
			_, _ = c.Param("file"), c.Params.String("file")
			_, _, _ = c.Length(), c.URL().Path, c.ContentType()
			c.Next()
		})
	}
	if s.second != "" {
		switch {
		case strings.HasPrefix(s.second, "/v2/"):
			// the second root mounted under the SAME prefix text as the first mount, inside a group
			r.Group("/v2", func() { r.StaticFiles(strings.TrimPrefix(s.second, "/v2"), root2, "css|js|txt") })
		case strings.HasSuffix(s.second, "files"):
			r.StaticFiles(s.second, root2, "css|js|txt")
		default:
			r.StaticDir(s.second, root2)
		}
	}
	dir := root
	if s.relative && relRoot != "" {
		dir = relRoot
	}
	mount := func() {
		switch s.kind {
		case "StaticDir":
			r.StaticDir(s.prefix, dir)
		case "StaticFS":
			if s.globalFile {
				// an application's own http.FileSystem: it trusts the cleaned name http.FileServer hands it
				r.StaticFS(s.prefix, joinFS(dir))
			} else {
				r.StaticFS(s.prefix, http.Dir(dir))
			}
		case "StaticFiles":
			r.StaticFiles(s.prefix, dir, s.exts)
		case "StaticFile":
			r.StaticFile(s.prefix, dir+"/a.css")
		}
	}
	if s.group != "" {
		r.Group(s.group, mount)
	} else {
		mount()
	}
	return r
}

var rootMarker = regexp.MustCompile(`ROOTFILE<([^>]*)>`)
var root2Marker = regexp.MustCompile(`ROOT2FILE<([^>]*)>`)

// check applies the validity predicate to one response; naive reports whether joining the path naively to the root
// would have left it (classification only).
func check(s setup, u *url.URL, rec *httptest.ResponseRecorder) string {
	body := rec.Body.String()
	all := body + fmt.Sprint(rec.Header())
	for _, m := range secrets {
		if strings.Contains(all, m) {
			return fmt.Sprintf("response contains content from outside the root (%s): %d %q", m, rec.Code, body)
		}
	}
	// a mount must not serve the files of the other mount's root
	underSecond := s.second != "" && strings.HasPrefix(model.Normalize(u.Path, false), s.second+"/")
	if underSecond {
		if rootMarker.MatchString(body) {
			return fmt.Sprintf("the mount %q of the second root served a file of the first root: %q", s.second, body)
		}
		if m := root2Marker.FindStringSubmatch(body); m != nil && (rec.Code == 200 || rec.Code == 206) {
			rel := strings.TrimPrefix(model.Normalize(u.Path, false), s.second+"/")
			if want := strings.TrimPrefix(path.Clean("/"+rel), "/"); m[1] != want && m[1] != path.Join(want, "index.html") {
				return fmt.Sprintf("request %q under the second mount served the bytes of %q", u.Path, m[1])
			}
		}
		return ""
	}
	if root2Marker.MatchString(body) {
		return fmt.Sprintf("a file of the second root was served through the first mount: %q", body)
	}
	ms := rootMarker.FindAllStringSubmatch(body, -1)
	if len(ms) == 0 {
		if s.kind == "StaticFiles" && rec.Code == 200 {
			return fmt.Sprintf("StaticFiles answered 200 without the bytes of a file (directory listing?): %q", body)
		}
		return ""
	}
	if rec.Code != 200 && rec.Code != 206 {
		return ""
	}
	f := ms[0][1]
	if body != inRoot[f] {
		return fmt.Sprintf("body %q is not exactly the file %q", body, f)
	}
	if s.kind == "StaticFile" {
		if f != "a.css" {
			return fmt.Sprintf("StaticFile served %q instead of the configured file", f)
		}
		return ""
	}
	// the file must be the one at path.Clean(request) below the root (or its index.html)
	used := u.Path
	if s.encoded {
		used = u.EscapedPath()
	}
	norm := model.Normalize(used, false)
	if !strings.HasPrefix(norm, s.full()+"/") {
		return fmt.Sprintf("request %q outside the prefix served file %q", norm, f)
	}
	if s.kind == "StaticFiles" {
		ok := false
		for _, e := range strings.Split(s.exts, "|") {
			if strings.HasSuffix(norm, "."+e) {
				ok = true
			}
		}
		if !ok {
			return fmt.Sprintf("StaticFiles(%q) served %q for request %q which does not end in an allowed extension", s.exts, f, norm)
		}
		okFile := false
		for _, e := range strings.Split(s.exts, "|") {
			// (an empty item in the list allows request paths that end in a bare dot - "x/..", "x/." - which name
			// directories or their parents: what is served then is whatever that path denotes inside the root)
			if strings.HasSuffix(f, "."+e) || e == "" {
				okFile = true
			}
		}
		if !okFile {
			return fmt.Sprintf("StaticFiles(%q) served the bytes of %q, a file without an allowed extension (request %q)", s.exts, f, used)
		}
	}
	// which path does the file server see? StaticDir/StaticFS: URL.Path minus prefix; StaticFiles: the matched tail
	rel := strings.TrimPrefix(u.Path, s.full())
	if s.kind == "StaticFiles" {
		rel = strings.TrimPrefix(norm, s.full()+"/")
	}
	want := strings.TrimPrefix(path.Clean("/"+rel), "/")
	if f != want && f != path.Join(want, "index.html") {
		// decoded and escaped views may differ; accept the other view as well before complaining
		alt := strings.TrimPrefix(path.Clean("/"+strings.TrimPrefix(model.Normalize(u.Path, false), s.full())), "/")
		if f != alt && f != path.Join(alt, "index.html") {
			return fmt.Sprintf("request %q (clean %q) served the bytes of %q", used, want, f)
		}
	}
	return ""
}

var segGen = rapid.OneOf(
	rapid.SampledFrom([]string{"..", "..", ".", "", "%2e%2e", "%2E%2E", "%2f", "%5c", "\\", "..\\", "\x00", "...", "a.css", "b.js", "sub", "deep", "c.css", "d.js",
		"index.html", "my file.css", "my%20file.css", "dots..css", "a.css.", "a.css/", "lib.js", "lib.js/", "style.css", "chart.js/", "inner.css", "accesscss", "passwdjs", "style.scss", "worker.mjs", "config.cjs", "x.js.njs", "page.xhtml", "notes.md", "page.htm", "x.cs", "a.j", "b.s", "c.ss", "d.tx", "e.tml", "f.s|j", "g.ht", "secret.txt", "sibling", "leak.js", "root", "parent", "rootx.css", "noext", "e.txt", "x.css.bak", "up..js", "..css", "..%2f..%2fsecret.txt%00.css"}),
	rapid.StringMatching(`[a-c./\\%]{1,4}`),
)

func prop(t *rapid.T) {
	ev.Case()
	s := setup{
		kind:     rapid.SampledFrom([]string{"StaticDir", "StaticFS", "StaticFiles", "StaticFiles", "StaticFile"}).Draw(t, "kind"),
		prefix:   rapid.SampledFrom([]string{"/assets", "/s", "/a/b", "/static.v1"}).Draw(t, "prefix"),
		exts:     rapid.SampledFrom([]string{"css|js", "html", "css", "js|html|txt", "css|js|", "css||js", ""}).Draw(t, "exts"), // (an empty item allows nothing but a bare trailing dot)
		encoded:  rapid.Bool().Draw(t, "useEncodedPath"),
		relative: rapid.IntRange(0, 2).Draw(t, "relativeRoot") == 0,
	}
	if s.kind == "StaticFile" {
		s.prefix += "/one.css"
	}
	if rapid.IntRange(0, 3).Draw(t, "insideGroup") == 0 {
		// the mount is registered inside a route group: the same containment applies below the group's prefix
		s.group = rapid.SampledFrom([]string{"/admin", "/g/x"}).Draw(t, "group")
		ev.Class("mount-inside-a-group")
	}
	if rapid.IntRange(0, 2).Draw(t, "secondMount") == 0 {
		s.second = rapid.SampledFrom([]string{"/pub", "/pubfiles", "/v2" + s.prefix, s.full() + "/docs"}).Draw(t, "secondPrefix")
		if s.kind == "StaticFile" && (strings.HasPrefix(s.second, "/v2/") || strings.HasSuffix(s.second, "/docs")) {
			s.second = "/pub"
		}
		s.cacheCap = rapid.IntRange(0, 2).Draw(t, "cacheCap")
	} else if rapid.IntRange(0, 2).Draw(t, "cachingAlone") == 0 {
		s.cacheCap = rapid.IntRange(1, 2).Draw(t, "cacheCap")
	}
	if rapid.IntRange(0, 3).Draw(t, "globalVarFile") == 0 {
		// documented API: a global path var; a variable with its own regex ({file:...}) must keep its own
		s.globalFile = true
		rux.SetGlobalVar("file", rapid.SampledFrom([]string{`[^/]+`, `.+`, `.*`}).Draw(t, "globalRegex"))
		defer delete(rux.GetGlobalVars(), "file")
	}
	r := s.router()
	n := rapid.IntRange(1, 8).Draw(t, "nreq")
	var earlier []string
	for i := 0; i < n; i++ {
		segs := rapid.SliceOfN(segGen, 0, 6).Draw(t, "segs")
		if rapid.IntRange(0, 7).Draw(t, "absSecret") == 0 {
			segs = append(segs, strings.Split(strings.TrimPrefix(filepath.ToSlash(secretAbs), "/"), "/")...)
		}
		if rapid.IntRange(0, 3).Draw(t, "climbToSecret") == 0 {
			segs = append(segs, "..", rapid.SampledFrom([]string{"secret.txt", "sibling/leak.js", "rootx.css", "root/a.css"}).Draw(t, "target"))
		}
		tail := strings.Join(segs, "/")
		if rapid.IntRange(0, 5).Draw(t, "encodedClimb") == 0 {
			// a direct climb out of the root whose dot-dot elements and separators may be percent-encoded (they are
			// decoded by net/http - or by nobody, under UseEncodedPath, unless the handler does it)
			dd := rapid.SampledFrom([]string{"..", "%2e%2e", "%2E%2E", ".%2e", "%2e."}).Draw(t, "dotdot")
			sep := rapid.SampledFrom([]string{"/", "/", "%2f", "%2F", "%5c"}).Draw(t, "sep")
			start := rapid.SampledFrom([]string{"", "", "sub" + sep, "sub" + sep + "deep" + sep}).Draw(t, "climbFrom")
			k := strings.Count(start, sep) + rapid.IntRange(1, 2).Draw(t, "levels")
			if sep == "/" && start != "" {
				k = strings.Count(start, "/") + rapid.IntRange(1, 2).Draw(t, "levels2")
			}
			target := rapid.SampledFrom([]string{"secret.txt", "sibling/leak.js", "rootx.css", "root/a.css", "root/b.js"}).Draw(t, "climbTarget")
			tail = start + strings.Repeat(dd+sep, k) + strings.ReplaceAll(target, "/", sep)
			ev.Class("request:climb-with-encoded-dot-dot-or-separator")
		}
		pfx := s.full()
		if rapid.IntRange(0, 9).Draw(t, "otherPrefix") == 0 {
			pfx = rapid.SampledFrom([]string{"", "/assets/..", "/other"}).Draw(t, "pfx")
		}
		raw := pfx + "/" + tail
		if s.kind == "StaticFile" && rapid.Bool().Draw(t, "exact") {
			raw = s.full()
		}
		switch rapid.IntRange(0, 9).Draw(t, "longOrAgain") {
		case 0: // the file with the very long name, or that name with something appended (no allowed extension then)
			raw = s.full() + "/" + longJS + rapid.SampledFrom([]string{"", "", ".map", "on", ".bak", "x/../../secret.txt"}).Draw(t, "longSuffix")
		case 1: // an earlier path once more (a cache may answer)
			if len(earlier) > 0 {
				raw = rapid.SampledFrom(earlier).Draw(t, "againAny")
			}
		}
		if s.second == "" {
			earlier = append(earlier, raw)
		}
		if s.second != "" {
			switch rapid.IntRange(0, 3).Draw(t, "mountChoice") {
			case 0: // a file of the second mount
				raw = s.second + "/" + rapid.SampledFrom([]string{"a.css", "b.js", "f1.txt", "sub/c.css", "only2.js", "../root/a.css"}).Draw(t, "file2")
			case 1: // a plain file of the first mount
				raw = s.full() + "/" + rapid.SampledFrom([]string{"a.css", "b.js", "sub/c.css", "page.html"}).Draw(t, "file1")
			case 2: // again an earlier path (the cache may answer)
				if len(earlier) > 0 {
					raw = rapid.SampledFrom(earlier).Draw(t, "again")
				}
			}
			earlier = append(earlier, raw)
		}
		var u *url.URL
		if rapid.Bool().Draw(t, "parsed") {
			var err error
			if u, err = url.ParseRequestURI(raw); err != nil {
				u = &url.URL{Path: raw}
			}
		} else {
			u = &url.URL{Path: raw} // as given, no cleaning by any mux
		}
		// a caller of Router.Match gets a params map of its own: what it does to it reaches no request (asked before
		// the request here - the first lookup of a path is the one a cache would remember)
		if rapid.Bool().Draw(t, "matchFirst") {
			if _, ps, _ := r.Match("GET", raw); ps != nil {
				for k := range ps {
					ps[k] = "notes.md"
				}
			}
		}
		// requests carry query strings as well (download links, cache busters, a path smuggled in as a parameter): a
		// static mount answers by the path alone
		if rapid.IntRange(0, 3).Draw(t, "withQuery") == 0 {
			u.RawQuery = rapid.SampledFrom([]string{"v=123", "download=1", "file=../secret.txt", "path=" + url.QueryEscape(secretAbs), "raw=1&name=..%2Fsecret.txt",
				"attachment=secret.txt", "inline=1", "dir=..", "root=/", "f=sibling/leak.js&download=true"}).Draw(t, "query")
			ev.Class("request-with-a-query-string")
		}
		orig := *u // StaticFiles rewrites Req.URL.Path: keep what was requested
		rec := httptest.NewRecorder()
		req := &http.Request{Method: "GET", URL: u, Header: http.Header{}, Proto: "HTTP/1.1", ProtoMajor: 1, ProtoMinor: 1}
		var pv any
		func() {
			defer func() { pv = recover() }()
			if len(raw)%2 == 1 {
				// a writer shaped like a real connection's: it also offers io.ReaderFrom (sendfile)
				r.ServeHTTP(rfRecorder{rec}, req)
				return
			}
			r.ServeHTTP(rec, req)
		}()
		ev.Eval()
		u = &orig
		// a caller of Router.Match gets a params map of its own: what it does to it reaches no later request
		if _, ps, _ := r.Match("GET", raw); ps != nil {
			for k := range ps {
				ps[k] = "../secret.txt"
			}
		}
		ctx := fmt.Sprintf("%s request path %q (raw %q)", s, u.Path, raw)
		if pv != nil {
			t.Fatalf("panic %v: %s", pv, ctx)
		}
		if msg := check(s, &url.URL{Path: raw, RawPath: u.RawPath}, rec); msg != "" && u.Path == raw {
			t.Fatalf("%s: %s", msg, ctx)
		}
		if msg := check(s, u, rec); msg != "" {
			t.Fatalf("%s: %s", msg, ctx)
		}
		// classification: would a naive join leave the root and hit an existing file?
		naive := filepath.Join(root, filepath.FromSlash(strings.TrimPrefix(u.Path, s.full())))
		if !strings.HasPrefix(naive, root+string(filepath.Separator)) && naive != root {
			if st, err := os.Stat(naive); err == nil && !st.IsDir() {
				ev.Class("naive-join-would-escape-to-an-existing-file")
				ev.NonTrivial(s.String()+raw, func() string { return ctx + fmt.Sprintf(" -> %d", rec.Code) })
			} else {
				ev.Class("naive-join-would-escape")
			}
		}
		if rootMarker.MatchString(rec.Body.String()) {
			ev.Class("served-a-file-from-the-root:" + s.kind)
		}
		ev.Class(fmt.Sprintf("status:%d", rec.Code))
	}
}

func TestProp(t *testing.T) { rapid.Check(t, prop) }

// propStaticFileCurrent: StaticFile returns the bytes of the configured file - the file as it is when it is requested
// (a file that is rewritten, or a route that is registered again for another file before it was ever requested, is
// served with its current content; the old bytes are not "bytes of the configured file" any more).
func propStaticFileCurrent(t *rapid.T) {
	ev.Case()
	dir := filepath.Join(sandbox, "mutable")
	_ = os.MkdirAll(dir, 0o755)
	file := filepath.Join(dir, "page.css")
	var opts []func(*rux.Router)
	if rapid.Bool().Draw(t, "caching") {
		opts = append(opts, rux.CachingWithNum(2))
	}
	r := rux.New(opts...)
	r.StaticFile("/m/page.css", file)
	for i, n := 0, rapid.IntRange(2, 4).Draw(t, "versions"); i < n; i++ {
		content := fmt.Sprintf("MUTABLE version %d %s", i, strings.Repeat("x", rapid.IntRange(0, 40).Draw(t, "pad")))
		write(file, content)
		for k, m := 0, rapid.IntRange(1, 2).Draw(t, "requests"); k < m; k++ {
			rec := httptest.NewRecorder()
			r.ServeHTTP(rec, httptest.NewRequest("GET", "/m/page.css", nil))
			ev.Eval()
			if rec.Code != 200 || rec.Body.String() != content {
				t.Fatalf("StaticFile answered %d %q, the configured file holds %q now (version %d, request %d)", rec.Code, rec.Body.String(), content, i, k)
			}
		}
	}
	ev.Class("StaticFile:file-rewritten-between-requests")
	ev.NonTrivial("mutable", func() string { return "the configured file is rewritten between requests" })
}

func TestPropStaticFileCurrent(t *testing.T) { rapid.Check(t, propStaticFileCurrent) }

// joinFS is a minimal http.FileSystem as applications write them: it joins the name it is given onto its root.  That
// is sound behind http.FileServer, which only ever asks for cleaned, rooted names.
type joinFS string

func (d joinFS) Open(name string) (http.File, error) {
	return os.Open(filepath.Join(string(d), filepath.FromSlash(name)))
}

// rfRecorder is a ResponseRecorder that is an io.ReaderFrom as well, like net/http's own response writer.
type rfRecorder struct{ *httptest.ResponseRecorder }

func (r rfRecorder) ReadFrom(src io.Reader) (int64, error) {
	return io.Copy(struct{ io.Writer }{r.ResponseRecorder}, src)
}
