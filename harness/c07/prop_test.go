// C07 — the dynamic-route cache never changes what a request observes.
// Differential twin: the same program builds a caching router and a non-caching one.
package c07

import (
	"fmt"
	"net/http"
	"net/http/httptest"
	"net/url"
	"reflect"
	"sort"
	"strings"
	"testing"

	"github.com/gookit/rux"
	"pgregory.net/rapid"

	"verifharness/ev"
	"verifharness/model"
)

func TestMain(m *testing.M) { ev.Main(m) }

type program struct {
	tb       *model.Table
	nGlobal  int
	routeMws []int // number of route middleware per route
	customNA bool
}

func (p program) String() string {
	return fmt.Sprintf("global=%d routeMw=%v customNA=%v %s", p.nGlobal, p.routeMws, p.customNA, p.tb)
}

func mw(name string) rux.HandlerFunc {
	return func(c *rux.Context) {
		c.WriteString("<" + name)
		c.Next()
		c.WriteString(">" + name)
	}
}

func paramsText(ps rux.Params) string {
	var ks []string
	for k := range ps {
		ks = append(ks, k)
	}
	sort.Strings(ks)
	var sb strings.Builder
	for _, k := range ks {
		fmt.Fprintf(&sb, "%s=%q;", k, ps[k])
	}
	return sb.String()
}

func build(p program, opts model.Options) *rux.Router {
	r := rux.New(opts.Rux()...)
	for i := 0; i < p.nGlobal; i++ {
		r.Use(mw(fmt.Sprintf("g%d", i)))
	}
	for i, d := range p.tb.Routes {
		name := d.Name()
		rt := r.AddNamed(name, d.P.String(), func(c *rux.Context) {
			// handlers treat Params as read-only (precondition of the property)
			c.WriteString("[" + name + " " + paramsText(c.Params) + "]")
		}, d.Methods...)
		for k := 0; k < p.routeMws[i]; k++ {
			rt.Use(mw(fmt.Sprintf("%sm%d", name, k)))
		}
	}
	if p.customNA {
		r.NotAllowed(func(c *rux.Context) {
			al, _ := c.SafeGet(rux.CTXAllowedMethods).([]string)
			al = append([]string{}, al...)
			sort.Strings(al)
			c.SetStatus(405)
			c.WriteString("[NA " + strings.Join(al, ",") + "]")
		})
	}
	return r
}

type obs struct {
	Route   string
	Path    string
	Methods string
	NMw     int
	Params  string
	Allowed string
	Code    int
	Body    string
	Allow   string
}

func observe(r *rux.Router, method, path string) obs {
	var o obs
	rt, ps, alm := r.Match(method, path)
	if rt != nil {
		o.Route, o.Path, o.Methods, o.NMw = rt.Name(), rt.Path(), strings.Join(rt.Methods(), ","), len(rt.Handlers())
	}
	o.Params = paramsText(ps)
	al := append([]string{}, alm...)
	sort.Strings(al)
	o.Allowed = strings.Join(al, ",")
	rec := httptest.NewRecorder()
	r.ServeHTTP(rec, &http.Request{Method: method, URL: &url.URL{Path: path}, Header: http.Header{}, Proto: "HTTP/1.1"})
	o.Code, o.Body, o.Allow = rec.Code, rec.Body.String(), rec.Header().Get("Allow")
	return o
}

type req struct{ method, path string }

// runHistory returns "" or the failure text.
func runHistory(p program, hist []req, classify bool) string {
	a := build(p, p.tb.Opts)
	plain := p.tb.Opts
	plain.Caching = false
	b := build(p, plain)
	hits, evictions, reRequested := 0, 0, 0
	evicted := map[string]bool{}
	for i, q := range hist {
		var before []string
		if cache := a.VerifCache(); classify && cache != nil {
			before = cache.VerifKeys()
			// classification only
			norm := model.Normalize(q.path, p.tb.Opts.Strict)
			for _, k := range before {
				if k == q.method+norm {
					hits++
				}
			}
			if evicted[q.method+norm] {
				reRequested++
			}
		}
		oa, ob := observe(a, q.method, q.path), observe(b, q.method, q.path)
		if !reflect.DeepEqual(oa, ob) {
			return fmt.Sprintf("step %d %s %q: caching router observes %+v, non-caching twin %+v\n history: %v\n program: %s", i, q.method, q.path, oa, ob, hist[:i+1], p)
		}
		if cache := a.VerifCache(); classify && cache != nil {
			after := map[string]bool{}
			for _, k := range cache.VerifKeys() {
				after[k] = true
			}
			for _, k := range before {
				if !after[k] {
					evictions++
					evicted[k] = true
				}
			}
		}
	}
	if classify {
		ev.ClassN("steps:cache-hit", hits)
		ev.ClassN("steps:eviction", evictions)
		ev.ClassN("steps:evicted-key-requested-again", reRequested)
		if hits > 0 && evictions > 0 {
			ev.Class("history:hit+eviction")
			if reRequested > 0 {
				ev.Class("history:hit+eviction+re-request")
			}
			ev.NonTrivial(p.String()+fmt.Sprint(hist), func() string { return fmt.Sprintf("%v | %s", hist, p) })
		}
	}
	return ""
}

func prop(t *rapid.T) {
	ev.Case()
	p := program{tb: &model.Table{}}
	o := &p.tb.Opts
	o.Strict = rapid.Bool().Draw(t, "strict")
	o.NotAllowed = rapid.Bool().Draw(t, "handle405")
	o.Fallback = rapid.IntRange(0, 3).Draw(t, "fallback") == 0
	o.Caching = true
	o.CacheCap = rapid.IntRange(0, ev.Pick(4, 8)).Draw(t, "cap")
	p.customNA = rapid.Bool().Draw(t, "customNA")
	tc := model.TableCfg{MaxRoutes: 6, Gen: model.GenCfg{MaxSegs: 3}, Fallback: o.Fallback}
	p.tb.Routes = model.GenRoutes(t, tc, o.Strict)
	if len(p.tb.Routes) == 0 {
		t.Skip("empty table")
	}
	p.nGlobal = rapid.IntRange(0, 2).Draw(t, "nglobal")
	for range p.tb.Routes {
		p.routeMws = append(p.routeMws, rapid.IntRange(0, 2).Draw(t, "nrouteMw"))
	}
	// small pool of requests so that repeats, hits and evictions all occur
	var pool []req
	np := rapid.IntRange(3, 8).Draw(t, "npool")
	for len(pool) < np {
		path, _, target, _, _ := model.GenProbePath(t, p.tb.Routes)
		if !model.Stable(path, o.Strict) {
			path = "/stable"
		}
		method := rapid.SampledFrom([]string{"GET", "GET", "POST", "HEAD", "PUT", "OPTIONS"}).Draw(t, "method")
		if target >= 0 && rapid.Bool().Draw(t, "ownMethod") {
			method = rapid.SampledFrom(p.tb.Routes[target].Methods).Draw(t, "method")
		}
		pool = append(pool, req{method, path})
	}
	n := rapid.IntRange(5, ev.Pick(40, 200)).Draw(t, "nsteps")
	hist := make([]req, n)
	for i := range hist {
		hist[i] = pool[rapid.IntRange(0, len(pool)-1).Draw(t, "pick")]
		ev.Eval()
	}
	for _, q := range hist {
		ev.Class("request:" + p.tb.Resolve(q.method, q.path).Kind.String())
	}
	if msg := runHistory(p, hist, true); msg != "" {
		t.Fatalf("%s", msg)
	}
}

func TestProp(t *testing.T) { rapid.Check(t, prop) }
