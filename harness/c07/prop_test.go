// C07 — the dynamic-route cache never changes what a request observes.
// Differential twin: the same program builds a caching router and a non-caching one.
package c07

import (
	"fmt"
	"net/http"
	"net/http/httptest"
	"net/url"
	"reflect"
	"sort"
	"strings"
	"sync"
	"testing"

	"github.com/gookit/rux"
	"pgregory.net/rapid"

	"verifharness/chain"
	"verifharness/ev"
	"verifharness/model"
)

func TestMain(m *testing.M) { ev.Main(m) }

type program struct {
	tb       *model.Table
	nGlobal  int
	routeMws []int // number of route middleware per route
	customNA bool
}

func (p program) String() string {
	return fmt.Sprintf("global=%d routeMw=%v customNA=%v %s", p.nGlobal, p.routeMws, p.customNA, p.tb)
}

func mw(name string) rux.HandlerFunc {
	return func(c *rux.Context) {
		c.WriteString("<" + name)
		c.Next()
		c.WriteString(">" + name)
	}
}

// paramsText renders a Params map; a nil map and an empty map are told apart (a handler that marshals c.Params
// sees null versus {}), so the cache may not turn one into the other.
func paramsText(ps rux.Params) string {
	if ps == nil {
		return "<nil>"
	}
	var ks []string
	for k := range ps {
		ks = append(ks, k)
	}
	sort.Strings(ks)
	var sb strings.Builder
	for _, k := range ks {
		fmt.Fprintf(&sb, "%s=%q;", k, ps[k])
	}
	return sb.String()
}

func build(p program, opts model.Options) *rux.Router {
	r := opts.NewRouter()
	for i := 0; i < p.nGlobal; i++ {
		r.Use(mw(fmt.Sprintf("g%d", i)))
	}
	for i, d := range p.tb.Routes {
		name := d.Name()
		rt := r.AddNamed(name, d.P.String(), func(c *rux.Context) {
			c.WriteString("[" + name + " " + paramsText(c.Params) + "]")
			// the map belongs to this request: the handler may use it as scratch space afterwards
			for k := range c.Params {
				c.Params[k] = "rewritten-by-an-earlier-handler"
			}
			if c.Params != nil {
				c.Params["added-by-an-earlier-handler"] = "x"
			}
		}, d.Methods...)
		for k := 0; k < p.routeMws[i]; k++ {
			rt.Use(mw(fmt.Sprintf("%sm%d", name, k)))
		}
		rt.Opts = map[string]any{"owner": name} // exported route options set at registration
	}
	if p.customNA {
		r.NotAllowed(func(c *rux.Context) {
			al, _ := c.SafeGet(rux.CTXAllowedMethods).([]string)
			al = append([]string{}, al...)
			sort.Strings(al)
			c.SetStatus(405)
			c.WriteString("[NA " + strings.Join(al, ",") + "]")
		})
	}
	return r
}

type obs struct {
	Route   string
	Path    string
	Methods string
	NMw     int
	Opts    string
	Params  string
	Allowed string
	Code    int
	Body    string
	Allow   string
}

func observe(r *rux.Router, method, path string) obs {
	var o obs
	rt, ps, alm := r.Match(method, path)
	if rt != nil {
		o.Route, o.Path, o.Methods, o.NMw = rt.Name(), rt.Path(), strings.Join(rt.Methods(), ","), len(rt.Handlers())
		o.Opts = fmt.Sprint(rt.Opts)
	}
	o.Params = paramsText(ps)
	for k := range ps { // ... and so may the caller of Match with the map it got
		ps[k] = "rewritten-by-the-caller-of-Match"
	}
	al := append([]string{}, alm...)
	sort.Strings(al)
	o.Allowed = strings.Join(al, ",")
	rec := httptest.NewRecorder()
	r.ServeHTTP(rec, &http.Request{Method: method, URL: &url.URL{Path: path}, Header: http.Header{}, Proto: "HTTP/1.1"})
	o.Code, o.Body, o.Allow = rec.Code, rec.Body.String(), rec.Header().Get("Allow")
	return o
}

type req struct{ method, path string }

// runHistory returns "" or the failure text.
func runHistory(p program, hist []req, classify bool) string {
	a := build(p, p.tb.Opts)
	plain := p.tb.Opts
	plain.Caching = false
	b := build(p, plain)
	hits, evictions, reRequested := 0, 0, 0
	evicted := map[string]bool{}
	for i, q := range hist {
		if q.method == "+USE" {
			// a global middleware is added while the router is already serving (both routers get it): from now on it
			// runs for every request - also for paths that were answered before
			for _, r := range []*rux.Router{a, b} {
				r.Use(mw("late" + q.path))
			}
			if classify {
				ev.Class("history:global-Use-after-requests")
			}
			continue
		}
		if q.method == "+GET" {
			// a route is added while the router is already serving (both routers get it): an exact static route
			// for a path that may have been answered - and cached - by a dynamic route before
			for _, r := range []*rux.Router{a, b} {
				path := q.path
				func() {
					defer func() { _ = recover() }()
					h := func(c *rux.Context) { c.WriteString("[late route " + path + "]") }
					switch (i + len(path)) % 7 { // through any of the equivalent registration calls
					case 5, 6:
						r.Any(path, h) // (all methods; both routers alike)
					case 0:
						r.GET(path, h)
					case 1:
						r.Add(path, h, "GET")
					case 2:
						r.AddRoute(rux.NewRoute(path, h, "GET"))
					case 3:
						rux.NewRoute(path, h, "GET").AttachTo(r)
					default:
						r.AddNamed(fmt.Sprintf("late%d", i), path, h, "GET")
					}
				}()
			}
			if classify {
				ev.Class("history:route-added-after-requests")
			}
			continue
		}
		if i%4 == 3 { // listings and other read-only calls in the middle of the traffic, on both routers
			model.Observe(a)
			model.Observe(b)
		}
		var before []string
		if cache := a.VerifCache(); classify && cache != nil {
			before = cache.VerifKeys()
			// classification only
			norm := model.Normalize(q.path, p.tb.Opts.Strict)
			for _, k := range before {
				if k == q.method+norm {
					hits++
				}
			}
			if evicted[q.method+norm] {
				reRequested++
			}
		}
		oa, ob := observe(a, q.method, q.path), observe(b, q.method, q.path)
		if !reflect.DeepEqual(oa, ob) {
			return fmt.Sprintf("step %d %s %q: caching router observes %+v, non-caching twin %+v\n history: %v\n program: %s", i, q.method, q.path, oa, ob, hist[:i+1], p)
		}
		if cache := a.VerifCache(); classify && cache != nil {
			after := map[string]bool{}
			for _, k := range cache.VerifKeys() {
				after[k] = true
			}
			for _, k := range before {
				if !after[k] {
					evictions++
					evicted[k] = true
				}
			}
		}
	}
	// at the end the requests of the history arrive once more, all at the same time, on the caching router (a server
	// serves in parallel): each is answered as the twin without cache answers it alone
	if len(hist)%4 == 1 {
		type answer struct {
			q    req
			want string
		}
		var qs []answer
		for _, q := range hist {
			if !strings.HasPrefix(q.method, "+") {
				rec := httptest.NewRecorder()
				b.ServeHTTP(rec, &http.Request{Method: q.method, URL: &url.URL{Path: q.path}, Header: http.Header{}, Proto: "HTTP/1.1"})
				qs = append(qs, answer{q, fmt.Sprintf("%d %q", rec.Code, rec.Body.String())})
			}
		}
		bad := make(chan string, 4)
		var wg sync.WaitGroup
		for g := 0; g < 4 && len(qs) > 0; g++ {
			wg.Add(1)
			go func(g int) {
				defer wg.Done()
				for k := 0; k < 3*len(qs); k++ {
					x := qs[(g+k)%len(qs)]
					rec := httptest.NewRecorder()
					a.ServeHTTP(rec, &http.Request{Method: x.q.method, URL: &url.URL{Path: x.q.path}, Header: http.Header{}, Proto: "HTTP/1.1"})
					if got := fmt.Sprintf("%d %q", rec.Code, rec.Body.String()); got != x.want {
						select {
						case bad <- fmt.Sprintf("%s %q answered %s by the caching router while 3 other requests were in flight, the twin without cache answers %s\n history: %v\n program: %s", x.q.method, x.q.path, got, x.want, hist, p):
						default:
						}
						return
					}
				}
			}(g)
		}
		wg.Wait()
		select {
		case msg := <-bad:
			return msg
		default:
		}
		if classify {
			ev.Class("history:replayed-by-4-goroutines-at-once")
		}
	}
	if classify {
		ev.ClassN("steps:cache-hit", hits)
		ev.ClassN("steps:eviction", evictions)
		ev.ClassN("steps:evicted-key-requested-again", reRequested)
		if hits > 0 && evictions > 0 {
			ev.Class("history:hit+eviction")
			if reRequested > 0 {
				ev.Class("history:hit+eviction+re-request")
			}
			ev.NonTrivial(p.String()+fmt.Sprint(hist), func() string { return fmt.Sprintf("%v | %s", hist, p) })
		}
	}
	return ""
}

func prop(t *rapid.T) {
	ev.Case()
	p := program{tb: &model.Table{}}
	o := &p.tb.Opts
	o.Strict = rapid.Bool().Draw(t, "strict")
	o.NotAllowed = rapid.Bool().Draw(t, "handle405")
	o.Fallback = rapid.IntRange(0, 3).Draw(t, "fallback") == 0
	o.Caching = true
	o.CacheCap = rapid.IntRange(0, ev.Pick(4, 8)).Draw(t, "cap")
	p.customNA = rapid.Bool().Draw(t, "customNA")
	o.Via, o.Order = model.GenVia(t), model.GenOrder(t)
	o.CacheStyle = model.GenCacheStyle(t)
	o.EncodedPath = rapid.IntRange(0, 3).Draw(t, "useEncodedPath") == 0
	tc := model.TableCfg{MaxRoutes: 6, Gen: model.GenCfg{MaxSegs: 3}, Fallback: o.Fallback}
	p.tb.Routes = model.GenRoutes(t, tc, o.Strict)
	if len(p.tb.Routes) == 0 {
		t.Skip("empty table")
	}
	if rapid.IntRange(0, 3).Draw(t, "longPrefix") == 0 {
		// every route below one long first segment (as inside a group with a long prefix): cache keys that agree
		// in their first 130-300 bytes and differ only after that
		long := strings.Repeat(rapid.StringMatching(`[a-c]{10}`).Draw(t, "longUnit"), rapid.IntRange(13, 30).Draw(t, "longReps"))
		for i := range p.tb.Routes {
			if d := &p.tb.Routes[i]; d.P.Raw == "" {
				d.P.Segs = append([]model.Part{{Pre: long}}, d.P.Segs...)
			}
		}
		ev.Class("table:all-routes-below-a-long-first-segment")
	}
	p.nGlobal = rapid.IntRange(0, 2).Draw(t, "nglobal")
	for range p.tb.Routes {
		p.routeMws = append(p.routeMws, rapid.IntRange(0, 2).Draw(t, "nrouteMw"))
	}
	// small pool of requests so that repeats, hits and evictions all occur
	var pool []req
	np := rapid.IntRange(3, 8).Draw(t, "npool")
	for len(pool) < np {
		path, _, target, _, _ := model.GenProbePath(t, p.tb.Routes)
		if !model.Stable(path, o.Strict) {
			path = "/stable"
		}
		method := rapid.SampledFrom([]string{"GET", "GET", "POST", "HEAD", "PUT", "OPTIONS"}).Draw(t, "method")
		if target >= 0 && rapid.Bool().Draw(t, "ownMethod") {
			method = rapid.SampledFrom(p.tb.Routes[target].Methods).Draw(t, "method")
		}
		pool = append(pool, req{method, path})
	}
	n := rapid.IntRange(5, ev.Pick(40, 200)).Draw(t, "nsteps")
	hist := make([]req, n)
	for i := range hist {
		hist[i] = pool[rapid.IntRange(0, len(pool)-1).Draw(t, "pick")]
		ev.Eval()
	}
	for _, q := range hist {
		if !strings.HasPrefix(q.method, "+") {
			ev.Class("request:" + p.tb.Resolve(q.method, q.path).Kind.String())
		}
	}
	if rapid.IntRange(0, 5).Draw(t, "lateUse") == 0 && len(hist) > 2 {
		k := rapid.IntRange(1, len(hist)-1).Draw(t, "lateUseAt")
		hist = append(append(append([]req{}, hist[:k]...), req{"+USE", fmt.Sprint(k)}, hist[k-1]), hist[k:]...)
	}
	// lifecycle: now and then a static route for one of the pool's paths is registered in the middle of the history
	if rapid.IntRange(0, 3).Draw(t, "lateRoute") == 0 && len(hist) > 2 {
		k := rapid.IntRange(1, len(hist)-1).Draw(t, "lateAt")
		lp := pool[rapid.IntRange(0, len(pool)-1).Draw(t, "latePath")].path
		if rapid.Bool().Draw(t, "lateDynamic") {
			// ... or a dynamic pattern related to an existing route (it may out-rank the route that answered before)
			base := p.tb.Routes[rapid.IntRange(0, len(p.tb.Routes)-1).Draw(t, "lateBase")].P
			if base.Raw == "" {
				lp = model.GenRelative(t, model.GenCfg{MaxSegs: 3, Strict: o.Strict}, base).String()
				hist = append(append(append([]req{}, hist[:k]...), req{"+GET", lp}), hist[k:]...)
			}
		} else {
			// preferably a path that was requested just before (its answer may sit in the cache), asked again right after
			if prev := hist[k-1]; !strings.HasPrefix(prev.method, "+") && rapid.Bool().Draw(t, "latePathJustRequested") {
				lp = prev.path
			}
			if model.Stable(lp, o.Strict) && !strings.ContainsAny(lp, "{}[]") {
				hist = append(append(append([]req{}, hist[:k]...), req{"+GET", model.Normalize(lp, o.Strict)}, req{"GET", lp}), hist[k:]...)
			}
		}
	}
	if msg := runHistory(p, hist, true); msg != "" {
		t.Fatalf("%s", msg)
	}
}

func TestProp(t *testing.T) { rapid.Check(t, prop) }

// propProgram: the same differential twin, but the router is built from a full registration program (nested groups,
// Use inside groups, several Route.Use calls, handler slices with spare capacity), so the cached route copies carry
// real middleware chains; the comparison is on the complete handler trace and the calls received by the writer.
func propProgram(t *rapid.T) {
	ev.Case()
	opts := model.Options{Strict: rapid.Bool().Draw(t, "strict"), NotAllowed: rapid.Bool().Draw(t, "handle405"), Caching: true,
		CacheCap: rapid.IntRange(0, ev.Pick(4, 8)).Draw(t, "cap")}
	cfg := chain.ProgCfg{MaxDepth: rapid.IntRange(0, 3).Draw(t, "maxDepth"), MaxMw: 3, MaxStmts: 4, Fallbacks: true, Dynamic: true, AnyRoutes: true,
		Script: chain.ScriptCfg{Writes: true, Data: true, Nexts: []int{0, 1, 1, 1, 2}}}
	wa, wb := chain.NewWorld(), chain.NewWorld()
	prog := chain.GenProgram(t, wa, opts, cfg)
	// more dynamic routes: that is what the cache is about
	pm := prog.Model()
	if len(pm.Routes) == 0 {
		t.Skip("no routes")
	}
	a := prog.Apply(wa)
	plain := *prog
	plain.Body = chain.Clone(prog.Body)
	plain.Opts.Caching = false
	b := plain.Apply(wb)
	pool := chain.Requests(t, pm, 3)
	for _, q := range pool {
		if q[0] == "GET" {
			pool = append(pool, [2]string{"HEAD", q[1]})
			break
		}
	}
	if len(pool) == 0 {
		t.Skip("no requests")
	}
	n := rapid.IntRange(4, ev.Pick(30, 120)).Draw(t, "nsteps")
	var hist [][2]string
	hits, evictions := 0, 0
	for i := 0; i < n; i++ {
		q := pool[rapid.IntRange(0, len(pool)-1).Draw(t, "pick")]
		hist = append(hist, q)
		if c, _, _ := pm.Expect(q[0], q[1]); len(c) > 62 {
			continue
		}
		ev.Eval()
		var before []string
		cache := a.VerifCache()
		if cache != nil {
			before = cache.VerifKeys()
			for _, k := range before {
				if k == q[0]+model.Normalize(q[1], opts.Strict) {
					hits++
				}
			}
		}
		ra, _, alA := a.Match(q[0], q[1])
		rb, _, alB := b.Match(q[0], q[1])
		ctx := func() string {
			return fmt.Sprintf("step %d %s %q\nhistory %v\nprogram:\n%sscripts:\n%s", i, q[0], q[1], hist, prog, prog.Scripts())
		}
		if (ra == nil) != (rb == nil) || (ra != nil && (ra.Path() != rb.Path() || len(ra.Handlers()) != len(rb.Handlers()) || strings.Join(ra.Methods(), ",") != strings.Join(rb.Methods(), ","))) {
			t.Fatalf("Match: caching router selects %v, non-caching twin %v\n%s", ra, rb, ctx())
		}
		sort.Strings(alA)
		sort.Strings(alB)
		if strings.Join(alA, ",") != strings.Join(alB, ",") {
			t.Fatalf("Match: allowed methods %v on the caching router, %v on the twin\n%s", alA, alB, ctx())
		}
		sa, sb := wa.NewRequest(q[0], q[1]), wb.NewRequest(q[0], q[1])
		if d := chain.Diff(sa.Serve(a), sb.Serve(b)); d != "" {
			t.Fatalf("caching router (first) and non-caching twin (second, called model below) differ:\n%s\n%s", d, ctx())
		}
		if cache != nil {
			after := map[string]bool{}
			for _, k := range cache.VerifKeys() {
				after[k] = true
			}
			for _, k := range before {
				if !after[k] {
					evictions++
				}
			}
		}
	}
	ev.ClassN("program:steps:cache-hit", hits)
	ev.ClassN("program:steps:eviction", evictions)
	if hits > 0 {
		ev.Class("program:history-with-hit")
		ev.NonTrivial(prog.String()+prog.Scripts()+fmt.Sprint(hist), func() string { return fmt.Sprintf("%v\n%s", hist, prog) })
	}
}

func TestPropProgram(t *testing.T) { rapid.Check(t, propProgram) }

// propLateRegistrationCalls: a directed version of the late-route step.  A path is answered (and cached) by a
// catch-most route; then a route that out-ranks it for that path is registered through one of the registration
// calls; the same request again must be answered as by the twin without cache - whichever call brought the new route.
func propLateRegistrationCalls(t *rapid.T) {
	ev.Case()
	call := rapid.SampledFrom([]string{"GET", "Add", "AddNamed", "AddRoute", "AttachTo", "Any", "Group+GET", "Controller", "NamedTo"}).Draw(t, "registrationCall")
	first := rapid.SampledFrom([]string{"users", "posts", "a"}).Draw(t, "firstSegment")
	id := rapid.StringMatching(`[0-9]{1,3}`).Draw(t, "id")
	method := "GET"
	build := func(caching bool) *rux.Router {
		var r *rux.Router
		if caching {
			r = rux.New(rux.CachingWithNum(uint16(rapid.IntRange(1, 3).Draw(t, "cap"))))
		} else {
			r = rux.New()
		}
		r.Add("/{a}/{b}", func(c *rux.Context) { c.WriteString("catch-most:" + c.Param("a") + "/" + c.Param("b")) }, "GET", "POST")
		return r
	}
	a, b := build(true), build(false)
	path := "/" + first + "/" + id
	observe := func(r *rux.Router) string {
		rec := httptest.NewRecorder()
		r.ServeHTTP(rec, httptest.NewRequest(method, path, nil))
		return fmt.Sprintf("%d %q", rec.Code, rec.Body.String())
	}
	nBefore := rapid.IntRange(1, 3).Draw(t, "requestsBefore")
	for i := 0; i < nBefore; i++ {
		if x, y := observe(a), observe(b); x != y {
			t.Fatalf("before the late route: caching router %s, twin %s", x, y)
		}
	}
	h := func(c *rux.Context) { c.WriteString("late:" + c.Param("id")) }
	pat := "/" + first + "/{id}"
	for _, r := range []*rux.Router{a, b} {
		r := r
		switch call {
		case "GET":
			r.GET(pat, h)
		case "Add":
			r.Add(pat, h, "GET", "POST")
		case "AddNamed":
			r.AddNamed("late", pat, h, "GET")
		case "AddRoute":
			r.AddRoute(rux.NewRoute(pat, h, "GET"))
		case "AttachTo":
			rux.NewRoute(pat, h, "GET").AttachTo(r)
		case "Any":
			r.Any(pat, h)
		case "Group+GET":
			r.Group("/"+first, func() { r.GET("/{id}", h) })
		case "Controller":
			r.Controller("/"+first, lateCtl{h})
		default:
			r.GET(pat, h).NamedTo("late", r)
		}
	}
	ev.Eval()
	for i := 0; i < 2; i++ {
		if x, y := observe(a), observe(b); x != y {
			t.Fatalf("%s %s after a route for %s arrived through %s: caching router answers %s, the twin without cache %s", method, path, pat, call, x, y)
		}
	}
	ev.Class("late-route-through:" + call)
	ev.NonTrivial(call+path, func() string { return call + " " + path })
}

type lateCtl struct{ h rux.HandlerFunc }

func (c lateCtl) AddRoutes(r *rux.Router) { r.GET("/{id}", c.h) }

func TestPropLateRegistrationCalls(t *testing.T) { rapid.Check(t, propLateRegistrationCalls) }
