// C20 — auth, method-override and http.Handler wrappers behave as gates.
package c20

import (
	"bytes"
	"encoding/base64"
	"fmt"
	"mime/multipart"
	"net/http"
	"net/http/httptest"
	"net/url"
	"strings"
	"testing"

	"github.com/gookit/rux"
	"github.com/gookit/rux/pkg/handlers"
	"pgregory.net/rapid"

	"verifharness/ev"
	"verifharness/model"
)

func TestMain(m *testing.M) { ev.Main(m) }

// ---------------------------------------------------------------- (a) HTTPBasicAuth

func propAuth(t *rapid.T) {
	ev.Case()
	users := []string{"tom", "ann", "", "a:b"}
	pwds := []string{"123", "", "p:w", "pässword", " "}
	accounts := map[string]string{}
	for i, n := 0, rapid.IntRange(0, 3).Draw(t, "naccounts"); i < n; i++ {
		accounts[rapid.SampledFrom(users[:2]).Draw(t, "accUser")] = rapid.SampledFrom(pwds).Draw(t, "accPwd")
	}
	kind := rapid.SampledFrom([]string{"known", "known", "wrong-password", "unknown-user", "absent", "other-scheme", "not-base64", "no-colon", "lowercase-scheme", "empty-value"}).Draw(t, "headerKind")
	user := rapid.SampledFrom(users[:2]).Draw(t, "user")
	pwd := rapid.SampledFrom(pwds).Draw(t, "pwd")
	enc := func(s string) string { return base64.StdEncoding.EncodeToString([]byte(s)) }
	var header string
	wellFormed := true
	switch kind {
	case "known":
		if p, ok := accounts[user]; ok {
			pwd = p
		}
		header = "Basic " + enc(user+":"+pwd)
	case "wrong-password":
		pwd += "x"
		header = "Basic " + enc(user+":"+pwd)
	case "unknown-user":
		user = "nobody"
		header = "Basic " + enc(user+":"+pwd)
	case "lowercase-scheme":
		header = "basic " + enc(user+":"+pwd)
	case "absent":
		wellFormed = false
	case "other-scheme":
		header, wellFormed = "Bearer "+enc(user+":"+pwd), false
	case "not-base64":
		header, wellFormed = "Basic !!!"+user, false
	case "no-colon":
		header, wellFormed = "Basic "+enc(user+pwd+"nocolon"), false
		if strings.Contains(user+pwd, ":") {
			wellFormed = true
			i := strings.Index(user+pwd+"nocolon", ":")
			user, pwd = (user + pwd + "nocolon")[:i], (user + pwd + "nocolon")[i+1:]
		}
	case "empty-value":
		header, wellFormed = "Basic ", false
	}
	// user names containing ':' cannot be carried by Basic auth: the first colon splits
	if wellFormed && strings.Contains(user, ":") {
		i := strings.Index(user+":"+pwd, ":")
		user, pwd = (user + ":" + pwd)[:i], (user + ":" + pwd)[i+1:]
	}
	var trace []string
	r := rux.New()
	pos := rapid.IntRange(0, 3).Draw(t, "authPosition")
	reqPath := "/p"
	onlyGate := false // the route may carry the gate alone, without the "after" middleware
	mw := func(n string) rux.HandlerFunc {
		return func(c *rux.Context) {
			trace = append(trace, "enter "+n)
			_, _, _ = c.Length(), c.StatusCode(), c.IsAborted() // an access log reads these around the rest of the chain
			c.Next()
			_, _, _ = c.Length(), c.StatusCode(), c.IsAborted()
			trace = append(trace, "leave "+n)
		}
	}
	// once the route is there the application tries to hang far too many middleware on it: refused as a whole, it recovers
	tooMany := func(rt *rux.Route) {
		model.TryCall(func() {
			many := make([]rux.HandlerFunc, 70)
			for i := range many {
				many[i] = func(c *rux.Context) { c.Next() }
			}
			rt.Use(many...)
		})
	}
	auth := handlers.HTTPBasicAuth(accounts)
	// something earlier in the chain may already have started the response (a banner, a streaming prelude):
	// the gate is about what RUNS afterwards, it must hold all the same
	banner := rapid.IntRange(0, 3).Draw(t, "bannerBeforeAuth") == 0
	if banner {
		r.Use(rux.WrapHTTPHandlerFunc(func(w http.ResponseWriter, _ *http.Request) { _, _ = w.Write([]byte("[banner]")) }))
	}
	var seenUser, seenPwd any
	main := func(c *rux.Context) {
		trace = append(trace, "main")
		seenUser, _ = c.Get("username")
		seenPwd, _ = c.Get("password")
		c.WriteString("secret")
	}
	switch pos {
	case 0:
		r.Use(auth)
		tooMany(r.GET("/p", main, mw("after")))
	case 1:
		tooMany(r.GET("/p", main, mw("before"), auth, mw("after")))
	case 2:
		r.Group("/", func() { r.GET("/p", main, mw("after")) }, mw("before"), auth)
	default:
		// the gate is the route's own middleware, inside a group whose chain was grown by Use calls, and a sibling
		// route with middleware of its own is registered after it
		r.Group("/g", func() {
			for i, n := 0, rapid.IntRange(0, 4).Draw(t, "groupUses"); i < n; i++ {
				r.Use(mw(fmt.Sprintf("group%d", i)))
			}
			// (how many handlers each route appends decides whether a sloppy merge shares the group's slice)
			own := []rux.HandlerFunc{auth, mw("after")}
			sib := []rux.HandlerFunc{mw("sibling1"), mw("sibling2")}
			r.GET("/p", main, own[:rapid.IntRange(1, 2).Draw(t, "ownMw")]...)
			r.GET("/open", func(c *rux.Context) { c.WriteString("open") }, sib[:rapid.IntRange(1, 2).Draw(t, "siblingMw")]...)
		})
		reqPath = "/g/p"
		onlyGate = true
	}
	rec := httptest.NewRecorder()
	req := httptest.NewRequest("GET", reqPath, nil)
	if header != "" || kind == "empty-value" {
		req.Header.Set("Authorization", header)
	}
	r.ServeHTTP(rec, req)
	ev.Eval()
	accPwd, known := accounts[user]
	allow := wellFormed && (len(accounts) == 0 || (known && accPwd == pwd))
	ran := strings.Contains(strings.Join(trace, ","), "main")
	afterRan := strings.Contains(strings.Join(trace, ","), "enter after")
	if onlyGate && !afterRan && !strings.Contains(strings.Join(trace, ","), "after") {
		afterRan = ran // no "after" middleware on this route
	}
	if strings.Contains(strings.Join(trace, ","), "sibling") {
		t.Fatalf("middleware of a sibling route ran for %s: trace=%v", reqPath, trace)
	}
	ctx := fmt.Sprintf("accounts=%q Authorization=%q (%s, user=%q pwd=%q) position=%d: status=%d body=%q trace=%v", accounts, header, kind, user, pwd, pos, rec.Code, rec.Body.String(), trace)
	ev.Class("auth:" + kind)
	if allow != ran || allow != afterRan {
		t.Fatalf("downstream ran=%v (middleware after auth ran=%v), should run=%v: %s", ran, afterRan, allow, ctx)
	}
	if banner {
		ev.Class("auth:response-already-started")
		// the status was committed by the banner (200); only the gate itself can be asserted
		if strings.Contains(rec.Body.String(), "secret") != allow {
			t.Fatalf("protected content in the body = %v, should be %v: %s", !allow, allow, ctx)
		}
		return
	}
	// the gate mounted as a plain http.Handler (HandlerFunc.ServeHTTP in an http.ServeMux), outside any router: the same
	// verdict reaches the client
	{
		mux := http.NewServeMux()
		mux.Handle(reqPath, auth)
		rec2 := httptest.NewRecorder()
		req2 := httptest.NewRequest("GET", reqPath, nil)
		if header != "" || kind == "empty-value" {
			req2.Header.Set("Authorization", header)
		}
		mux.ServeHTTP(rec2, req2)
		want := 200
		if !allow {
			want = rec.Code
		}
		if rec2.Code != want {
			t.Fatalf("the gate as a plain http.Handler answers %d, inside the router the request is answered %d (allowed=%v): %s", rec2.Code, rec.Code, allow, ctx)
		}
	}
	switch {
	case allow:
		if rec.Code != 200 || rec.Body.String() != "secret" {
			t.Fatalf("allowed request answered %d: %s", rec.Code, ctx)
		}
		if seenUser != user || seenPwd != pwd {
			t.Fatalf("downstream saw user=%v pwd=%v: %s", seenUser, seenPwd, ctx)
		}
	case !wellFormed:
		if rec.Code != 401 || rec.Header().Get("WWW-Authenticate") == "" {
			t.Fatalf("no/malformed credentials must give 401 with a challenge, got %d %q: %s", rec.Code, rec.Header().Get("WWW-Authenticate"), ctx)
		}
		if strings.Contains(rec.Body.String(), "secret") {
			t.Fatalf("body leaked: %s", ctx)
		}
	default:
		if rec.Code != 403 || strings.Contains(rec.Body.String(), "secret") {
			t.Fatalf("wrong credentials must give 403, got %d: %s", rec.Code, ctx)
		}
	}
	if (pos == 1 || pos == 2) && !strings.Contains(strings.Join(trace, ","), "leave before") {
		t.Fatalf("middleware before the gate did not resume: %s", ctx)
	}
	if len(accounts) > 0 || !wellFormed {
		ev.NonTrivial(ctx, func() string { return ctx })
	}
}

func TestPropAuth(t *testing.T) { rapid.Check(t, propAuth) }

// ---------------------------------------------------------------- (b) HTTPMethodOverrideHandler

func propOverride(t *rapid.T) {
	ev.Case()
	method := rapid.SampledFrom(rux.AnyMethods()).Draw(t, "method")
	val := rapid.SampledFrom([]string{"PUT", "PATCH", "DELETE", "put", "Patch", "delete", "GET", "HEAD", "POST", "OPTIONS", "garbage", "", "PUT ", "PUTS", "DEL"})
	headerVal, formVal := "", ""
	carrier := rapid.SampledFrom([]string{"header", "form", "both", "none", "query", "multipart"}).Draw(t, "carrier")
	switch carrier {
	case "header":
		headerVal = val.Draw(t, "headerValue")
	case "form", "query", "multipart":
		formVal = val.Draw(t, "formValue")
	case "both":
		headerVal, formVal = val.Draw(t, "headerValue"), val.Draw(t, "formValue")
	}
	var gotMethod string
	var gotOrig any
	r := rux.New()
	r.Any("/m", func(c *rux.Context) {
		gotMethod = c.Req.Method
		gotOrig = c.Req.Context().Value(handlers.OriginalMethodContextKey)
		c.WriteString("ok")
	})
	h := r.WrapHTTPHandlers(handlers.HTTPMethodOverrideHandler)
	target := "/m"
	var body *strings.Reader
	if carrier == "query" {
		target += "?" + url.Values{handlers.HTTPMethodOverrideFormKey: {formVal}}.Encode()
		body = strings.NewReader("")
	} else if formVal != "" || carrier == "form" || carrier == "both" {
		vals := url.Values{handlers.HTTPMethodOverrideFormKey: {formVal}}
		if rapid.IntRange(0, 3).Draw(t, "bigForm") == 0 {
			// an ordinary edit form: the other fields make the body longer than 1 KB / 4 KB
			vals.Set("description", strings.Repeat("lorem ipsum ", rapid.IntRange(100, 400).Draw(t, "padding")))
			ev.Class("override:form-body-longer-than-1KB")
		}
		body = strings.NewReader(vals.Encode())
	} else {
		body = strings.NewReader("")
	}
	req := httptest.NewRequest(method, target, body)
	if carrier == "form" || carrier == "both" {
		req.Header.Set("Content-Type", "application/x-www-form-urlencoded")
	}
	if carrier == "multipart" { // the usual encoding of an edit form with a file input
		var buf bytes.Buffer
		mw := multipart.NewWriter(&buf)
		_ = mw.SetBoundary("verifharnessboundary0123456789")
		_ = mw.WriteField("title", "x")
		_ = mw.WriteField(handlers.HTTPMethodOverrideFormKey, formVal)
		_ = mw.Close()
		req = httptest.NewRequest(method, target, &buf)
		req.Header.Set("Content-Type", mw.FormDataContentType())
	}
	if headerVal != "" {
		req.Header.Set(handlers.HTTPMethodOverrideHeader, headerVal)
	}
	rec := httptest.NewRecorder()
	h.ServeHTTP(rec, req)
	ev.Eval()
	// the form field (body or query: Request.FormValue) wins over the header
	eff := formVal
	if eff == "" {
		eff = headerVal
	}
	up := strings.ToUpper(eff)
	rewrite := method == "POST" && (up == "PUT" || up == "PATCH" || up == "DELETE")
	ctx := fmt.Sprintf("method=%s carrier=%s header=%q form=%q: handler saw method=%q original=%v", method, carrier, headerVal, formVal, gotMethod, gotOrig)
	if rewrite {
		if gotMethod != up || gotOrig != "POST" {
			t.Fatalf("should be rewritten to %s with the original method recorded: %s", up, ctx)
		}
		ev.Class("override:rewritten")
		ev.NonTrivial(ctx, func() string { return ctx })
	} else {
		if gotMethod != method || gotOrig != nil {
			t.Fatalf("method and context must be untouched: %s", ctx)
		}
		ev.Class("override:untouched")
		if method == "POST" || eff != "" {
			ev.NonTrivial(ctx, func() string { return ctx })
		}
	}
}

func TestPropOverride(t *testing.T) { rapid.Check(t, propOverride) }

// ---------------------------------------------------------------- (c) wrappers compose

func propWrap(t *rapid.T) {
	ev.Case()
	var trace []string
	n := rapid.IntRange(1, 5).Draw(t, "nwrappers")
	short := rapid.IntRange(-1, n-1).Draw(t, "shortCircuitAt") // a wrapper that answers itself (-1: none)
	if rapid.Bool().Draw(t, "noShortCircuit") {
		short = -1
	}
	wrappers := make([]func(http.Handler) http.Handler, n)
	for i := range wrappers {
		name := fmt.Sprintf("w%d", i)
		stop := i == short
		wrappers[i] = func(next http.Handler) http.Handler {
			return http.HandlerFunc(func(w http.ResponseWriter, r *http.Request) {
				trace = append(trace, "enter "+name)
				if stop {
					w.WriteHeader(403)
				} else {
					next.ServeHTTP(w, r)
				}
				trace = append(trace, "leave "+name)
			})
		}
	}
	r := rux.New()
	// generic http.Handlers inside the chain, at any position
	k := rapid.IntRange(0, 3).Draw(t, "nInChain")
	var mws []rux.HandlerFunc
	var wantInner []string
	for i := 0; i < k; i++ {
		name := fmt.Sprintf("h%d", i)
		f := func(w http.ResponseWriter, r *http.Request) {
			trace = append(trace, "std "+name)
			_, _ = w.Write([]byte("<" + name + ">"))
		}
		switch rapid.IntRange(0, 3).Draw(t, "wrapKind") {
		case 0:
			mws = append(mws, rux.WrapHTTPHandlerFunc(f))
		case 1:
			mws = append(mws, rux.WrapHTTPHandler(http.HandlerFunc(f)))
		case 2:
			mws = append(mws, rux.WrapH(http.HandlerFunc(f)))
		default:
			mws = append(mws, rux.HTTPHandlerFunc(f))
		}
		wantInner = append(wantInner, "std "+name)
	}
	// native middleware around the generic handlers: a status recorded before them is the one sent when they start the
	// body, and what they wrote is visible to the context afterwards (they write through the context's writer)
	preStatus := 0
	if rapid.IntRange(0, 2).Draw(t, "statusBefore") == 0 {
		preStatus = rapid.SampledFrom([]int{201, 202, 404}).Draw(t, "preStatus")
	}
	seenLen, seenStatus := -2, -2
	observer := func(c *rux.Context) {
		if preStatus != 0 {
			c.SetStatus(preStatus)
		}
		c.Next()
		seenLen, seenStatus = c.Length(), c.StatusCode()
	}
	mws = append([]rux.HandlerFunc{observer}, mws...)
	r.GET("/w", func(c *rux.Context) { trace = append(trace, "main"); c.WriteString("[main]") }, mws...)
	h := r.WrapHTTPHandlers(wrappers...)
	// the caller keeps its wrapper list and wraps again (a second server, a test): the list must still mean the same
	if again := rapid.IntRange(0, 2).Draw(t, "wrapAgain"); again > 0 {
		for i := 0; i < again; i++ {
			h = r.WrapHTTPHandlers(wrappers...)
		}
		ev.Class("wrapper-list-reused")
	}
	rec := httptest.NewRecorder()
	h.ServeHTTP(rec, httptest.NewRequest("GET", "/w", nil))
	ev.Eval()
	var want []string
	last := n - 1
	if short >= 0 {
		last = short
	}
	for i := 0; i <= last; i++ {
		want = append(want, fmt.Sprintf("enter w%d", i))
	}
	wantBody, wantCode := "", 403
	if short < 0 {
		want = append(want, wantInner...)
		want = append(want, "main")
		wantCode = 200
		for i := 0; i < k; i++ {
			wantBody += fmt.Sprintf("<h%d>", i)
		}
		wantBody += "[main]"
	}
	for i := last; i >= 0; i-- {
		want = append(want, fmt.Sprintf("leave w%d", i))
	}
	ctx := fmt.Sprintf("%d wrappers (short circuit at %d), %d http.Handlers in the chain: trace %v, status %d body %q", n, short, k, trace, rec.Code, rec.Body.String())
	if strings.Join(trace, ",") != strings.Join(want, ",") {
		t.Fatalf("want trace %v: %s", want, ctx)
	}
	if short < 0 && preStatus != 0 {
		wantCode = preStatus
	}
	if rec.Code != wantCode || rec.Body.String() != wantBody {
		t.Fatalf("want %d %q: %s", wantCode, wantBody, ctx)
	}
	if short < 0 && (seenLen != len(wantBody) || seenStatus != wantCode) {
		t.Fatalf("the middleware around the chain saw Length()=%d StatusCode()=%d after Next(), the response is %d with %d bytes: %s", seenLen, seenStatus, wantCode, len(wantBody), ctx)
	}
	if n >= 2 || k >= 1 {
		ev.NonTrivial(ctx, func() string { return ctx })
	}
}

func TestPropWrap(t *testing.T) { rapid.Check(t, propWrap) }
