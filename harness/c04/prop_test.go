// C04 — middleware runs in global -> group -> route -> handler onion order.
package c04

import (
	"fmt"
	"net/http"
	"net/http/httptest"
	"strings"
	"testing"

	"github.com/gookit/rux"
	"pgregory.net/rapid"

	"verifharness/chain"
	"verifharness/ev"
	"verifharness/model"
)

func TestMain(m *testing.M) { ev.Main(m) }

func levels(names string) int {
	n := 0
	for _, p := range []string{"u", "g", "m", "h", "f"} {
		for _, x := range strings.Split(names, ",") {
			if strings.HasPrefix(x, p) {
				n++
				break
			}
		}
	}
	return n
}

func chainNames(c []*chain.Script) string {
	ss := make([]string, len(c))
	for i, s := range c {
		ss[i] = s.Name
	}
	return strings.Join(ss, ",")
}

func prop(t *rapid.T) {
	ev.Case()
	w := chain.NewWorld()
	opts := model.Options{Strict: rapid.Bool().Draw(t, "strict"), NotAllowed: rapid.Bool().Draw(t, "handle405"), Via: model.GenVia(t)}
	if rapid.IntRange(0, 2).Draw(t, "caching") == 0 {
		opts.Caching, opts.CacheCap = true, rapid.IntRange(0, 3).Draw(t, "cap")
	}
	cfg := chain.ProgCfg{
		MaxDepth: rapid.IntRange(0, ev.Pick(4, 6)).Draw(t, "maxDepth"), MaxMw: 3, MaxStmts: ev.Pick(4, 5),
		LongChains: rapid.IntRange(0, ev.Pick(9, 3)).Draw(t, "longChains") == 0,
		Fallbacks:  true, Dynamic: true, EmptyPaths: true, AnyRoutes: true, Controllers: true, RootGroups: true,
		Script: chain.ScriptCfg{Writes: true, Data: true},
	}
	prog := chain.GenProgram(t, w, opts, cfg)
	pm := prog.Model()
	if len(pm.Routes) == 0 {
		t.Skip("no routes")
	}
	// some handlers issue a nested request: they call ServeHTTP of the same router for an internal sub-request and
	// go on afterwards. Each request, nested or not, must run exactly its own chain.
	nsub := 0
	if rapid.IntRange(0, 2).Draw(t, "nestedRequests") == 0 {
		pool := chain.Requests(t, pm, 2)
		all := prog.AllScripts()
		for i, k := 0, rapid.IntRange(1, 3).Draw(t, "nsub"); i < k && len(pool) > 0 && len(all) > 0; i++ {
			q := pool[rapid.IntRange(0, len(pool)-1).Draw(t, "subReq")]
			if c, _, _ := pm.Expect(q[0], q[1]); len(c) > 40 {
				continue
			}
			sc := all[rapid.IntRange(0, len(all)-1).Draw(t, "subIn")]
			at := rapid.IntRange(0, len(sc.Ops)).Draw(t, "subAt")
			sc.Ops = append(append(append([]chain.Op{}, sc.Ops[:at]...), chain.Op{K: chain.OpSub, S: q[0], S2: q[1]}), sc.Ops[at:]...)
			nsub++
		}
		if nsub > 0 {
			w.Subs = true
			pm.EnableSub()
		}
	}
	r := prog.Apply(w)
	// structural: path and middleware count of every registered route
	for _, rt := range pm.Routes {
		if rt.Stmt.Route == nil {
			continue
		}
		if got := rt.Stmt.Route.Path(); got != rt.Full {
			t.Fatalf("route path %q, model %q\n%s", got, rt.Full, prog)
		}
		if got := len(rt.Stmt.Route.Handlers()); got != len(rt.Chain) {
			t.Fatalf("route %s has %d middleware, model %d [%s]\n%s", rt.Full, got, len(rt.Chain), chainNames(rt.Chain), prog)
		}
	}
	// a global Use placed after the first route?
	lateGlobal := false
	seenRoute := false
	for _, s := range prog.Body {
		if s.Kind == "route" || s.Kind == "group" {
			seenRoute = true
		}
		if s.Kind == "use" && seenRoute {
			lateGlobal = true
		}
	}
	// global middleware is not counted by the registration-time limit: chains of 64 and more handlers are legal (up to
	// the 127 an int8 cursor can count) and - without aborts, which this check's scripts never do - run like any other
	pm.MaxChain = 120
	w.CancelEvery = 3 // every third request arrives with a cancelled context: the chain runs all the same
	reqs := chain.Requests(t, pm, rapid.IntRange(1, 3).Draw(t, "extraProbes"))
	// "global middleware in Use order, including those added after the route was registered": sometimes one more
	// global Use arrives after the first round of requests; the second round must run it everywhere
	lateUse := rapid.IntRange(0, 3).Draw(t, "lateUse") == 0
	rounds := [][][2]string{reqs}
	if lateUse {
		rounds = append(rounds, reqs)
	}
	for round, rq := range rounds {
		if round == 1 {
			late := chain.GenScript(t, w, "u", cfg.Script)
			r.Use(w.Handler(late))
			pm.Global = append(append([]*chain.Script{}, pm.Global...), late)
			lateGlobal = true
			ev.Class("global-Use-after-the-first-requests")
		}
		checkRound(t, w, r, pm, prog, rq, nsub, lateGlobal)
	}
}

func checkRound(t *rapid.T, w *chain.World, r *rux.Router, pm *chain.PModel, prog *chain.Program, reqs [][2]string, nsub int, lateGlobal bool) {
	for _, q := range reqs {
		msg, info := chain.CheckRequest(w, r, pm, q[0], q[1])
		if info.Skipped {
			ev.Class("skipped:chain-longer-than-120")
			continue
		}
		ev.Eval()
		ev.Class("request:" + info.Res.Kind.String())
		ns := chainNames(info.Chain)
		odd := false
		for _, s := range info.Chain {
			if !s.Silent && s.NNext() != 1 {
				odd = true
			}
		}
		switch n := len(info.Chain); {
		case n >= 30:
			ev.Class("chain:30-63")
		case n >= 10:
			ev.Class("chain:10-29")
		case n >= 3:
			ev.Class("chain:3-9")
		default:
			ev.Class("chain:1-2")
		}
		if len(info.Chain) > 63 {
			ev.Class("chain:64-120-handlers(global middleware on top of a full route chain)")
		}
		if len(info.Chain) == 63 {
			ev.Class("chain:exactly-63-handlers")
		}
		if nsub > 0 {
			ev.Class("program-with-nested-requests")
		}
		if (len(info.Chain) >= 3 && levels(ns) >= 2) || odd || lateGlobal {
			if odd {
				ev.Class("nontrivial:handler-with-0-or-2-Next")
			}
			if lateGlobal {
				ev.Class("nontrivial:global-Use-after-route")
			}
			ev.NonTrivial(prog.String()+prog.Scripts()+q[0]+q[1], func() string {
				return fmt.Sprintf("%s %q -> %s chain [%s]\n%s", q[0], q[1], info.Res.Kind, ns, prog)
			})
		}
		if msg != "" {
			t.Fatalf("%s\nprogram:\n%sscripts:\n%s", msg, prog, prog.Scripts())
		}
	}
}

func TestProp(t *testing.T) { rapid.Check(t, prop) }

// propAdaptedMiddleware: net/http handlers adapted with WrapHTTPHandler / WrapHTTPHandlerFunc (or rux's aliases) sit in
// a chain like any middleware.  Whatever such a handler does to the response - an error status, http.Error,
// http.NotFound, a redirect, nothing at all - the chain goes on in order: the adapter passes on, it does not decide.
func propAdaptedMiddleware(t *rapid.T) {
	ev.Case()
	r := rux.New()
	var trace []string
	mw := func(n string) rux.HandlerFunc {
		return func(c *rux.Context) { trace = append(trace, "enter "+n); c.Next(); trace = append(trace, "leave "+n) }
	}
	n := rapid.IntRange(1, 4).Draw(t, "chainLength")
	at := rapid.IntRange(0, n-1).Draw(t, "adaptedAt")
	what := rapid.SampledFrom([]string{"status-404", "status-500", "status-201", "http.Error-403", "http.NotFound", "redirect", "nothing", "body-only", "inner-router-404"}).Draw(t, "adaptedDoes")
	std := http.HandlerFunc(func(w http.ResponseWriter, req *http.Request) {
		trace = append(trace, "adapted")
		switch what {
		case "status-404":
			w.WriteHeader(404)
		case "status-500":
			w.WriteHeader(500)
		case "status-201":
			w.WriteHeader(201)
		case "http.Error-403":
			http.Error(w, "no", 403)
		case "http.NotFound":
			http.NotFound(w, req)
		case "redirect":
			http.Redirect(w, req, "/elsewhere", 302)
		case "body-only":
			_, _ = w.Write([]byte("x"))
		case "inner-router-404":
			rux.New().ServeHTTP(w, req)
		}
	})
	var adapted rux.HandlerFunc
	switch rapid.IntRange(0, 2).Draw(t, "adapter") {
	case 0:
		adapted = rux.WrapHTTPHandler(std)
	case 1:
		adapted = rux.WrapHTTPHandlerFunc(std)
	default:
		adapted = rux.WrapH(std)
	}
	var want []string
	var mws []rux.HandlerFunc
	for i := 0; i < n; i++ {
		if i == at {
			mws = append(mws, adapted)
			want = append(want, "adapted")
		} else {
			mws = append(mws, mw(fmt.Sprint(i)))
			want = append(want, fmt.Sprintf("enter %d", i))
		}
	}
	want = append(want, "main")
	for i := n - 1; i >= 0; i-- {
		if i != at {
			want = append(want, fmt.Sprintf("leave %d", i))
		}
	}
	place := rapid.IntRange(0, 2).Draw(t, "where")
	main := func(c *rux.Context) { trace = append(trace, "main") }
	switch place {
	case 0:
		r.Use(mws...)
		r.GET("/x", main)
	case 1:
		r.Group("/", func() { r.GET("/x", main) }, mws...)
	default:
		r.GET("/x", main, mws...)
	}
	r.ServeHTTP(httptest.NewRecorder(), httptest.NewRequest("GET", "/x", nil))
	ev.Eval()
	if strings.Join(trace, ",") != strings.Join(want, ",") {
		t.Fatalf("chain of %d with an adapted net/http handler (%s) at %d, placed %d: ran %v, want %v", n, what, at, place, trace, want)
	}
	ev.Class("adapted-net/http-middleware:" + what)
	ev.NonTrivial(fmt.Sprint(n, at, what, place), func() string { return fmt.Sprintf("n=%d at=%d %s place=%d", n, at, what, place) })
}

func TestPropAdaptedMiddleware(t *testing.T) { rapid.Check(t, propAdaptedMiddleware) }
