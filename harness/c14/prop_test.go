// C14 — the route cache is a bounded LRU map and repeats are served from it.
package c14

import (
	"fmt"
	"net/http"
	"net/http/httptest"
	"net/url"
	"reflect"
	"strings"
	"sync"
	"testing"

	"github.com/gookit/rux"
	"pgregory.net/rapid"

	"verifharness/ev"
	"verifharness/model"
)

func TestMain(m *testing.M) { ev.Main(m) }

// ---------------------------------------------------------------- part A: state machine

type entry struct {
	k string
	v *rux.Route
}

type lru struct {
	cap   int
	items []entry // most recent first
}

func (m *lru) find(k string) int {
	for i, e := range m.items {
		if e.k == k {
			return i
		}
	}
	return -1
}

func (m *lru) touch(i int) {
	e := m.items[i]
	copy(m.items[1:i+1], m.items[:i])
	m.items[0] = e
}

func (m *lru) keys() []string {
	ks := make([]string, len(m.items))
	for i, e := range m.items {
		ks[i] = e.k
	}
	return ks
}

func propLRU(t *rapid.T) {
	ev.Case()
	capacity := rapid.IntRange(0, 5).Draw(t, "cap")
	big := rapid.IntRange(0, 99).Draw(t, "bigCache") == 0
	if big {
		// capacities of real deployments (the default is 1000): filled to the brim first, so that the steps below overflow it
		capacity = rapid.SampledFrom([]int{255, 256, 257, 300, 512, 1000}).Draw(t, "bigCap")
	}
	nkeys := rapid.IntRange(1, 8).Draw(t, "nkeys")
	keys := make([]string, nkeys)
	for i := range keys {
		keys[i] = fmt.Sprintf("GET/k%d", i)
	}
	c := rux.NewCachedRoutes(capacity)
	m := &lru{cap: capacity}
	routes := map[string]*rux.Route{}
	newRoute := func(label string) *rux.Route {
		r := rux.NewNamedRoute(label, "/x", func(*rux.Context) {})
		routes[label] = r
		return r
	}
	if big {
		for i := 0; i < capacity-rapid.IntRange(0, 2).Draw(t, "roomLeft"); i++ {
			k, v := fmt.Sprintf("GET/fill%d", i), newRoute(fmt.Sprintf("fill%d", i))
			c.Set(k, v)
			m.items = append([]entry{{k, v}}, m.items...)
		}
		ev.Class("cache-of-real-size-filled-to-the-brim")
	}
	nval := 0
	evictions, getsThatReorder, evictAfterReorder := 0, 0, false
	reordered := false
	var trace []string
	t.Repeat(map[string]func(*rapid.T){
		"Set": func(t *rapid.T) {
			k := rapid.SampledFrom(keys).Draw(t, "key")
			nval++
			v := newRoute(fmt.Sprintf("v%d", nval))
			trace = append(trace, "Set("+k+")")
			if !c.Set(k, v) {
				t.Fatalf("Set returned false")
			}
			if i := m.find(k); i >= 0 {
				m.items[i].v = v
				m.touch(i)
			} else {
				m.items = append([]entry{{k, v}}, m.items...)
				if len(m.items) > m.cap {
					m.items = m.items[:len(m.items)-1]
					evictions++
					if reordered {
						evictAfterReorder = true
					}
				}
			}
		},
		"Get": func(t *rapid.T) {
			k := rapid.SampledFrom(keys).Draw(t, "key")
			trace = append(trace, "Get("+k+")")
			v, ok := c.Get(k)
			i := m.find(k)
			if ok != (i >= 0) {
				t.Fatalf("Get(%s) found=%v, model found=%v", k, ok, i >= 0)
			}
			if ok {
				if v != m.items[i].v {
					t.Fatalf("Get(%s) returned value %s, model has %s", k, v.Name(), m.items[i].v.Name())
				}
				if i > 0 {
					getsThatReorder++
					reordered = true
				}
				m.touch(i)
			} else if v != nil {
				t.Fatalf("Get(%s) miss with non-nil value", k)
			}
		},
		"Has": func(t *rapid.T) {
			k := rapid.SampledFrom(keys).Draw(t, "key")
			trace = append(trace, "Has("+k+")")
			ok := c.Has(k)
			i := m.find(k)
			if ok != (i >= 0) {
				t.Fatalf("Has(%s)=%v, model %v", k, ok, i >= 0)
			}
			// The statement does not say whether Has counts as a read: accept either order.
			if ok && i > 0 {
				got := c.VerifKeys()
				if len(got) > 0 && got[0] == k {
					m.touch(i)
				}
			}
		},
		"Delete": func(t *rapid.T) {
			k := rapid.SampledFrom(keys).Draw(t, "key")
			trace = append(trace, "Delete("+k+")")
			ok := c.Delete(k)
			i := m.find(k)
			if ok != (i >= 0) {
				t.Fatalf("Delete(%s)=%v, model %v", k, ok, i >= 0)
			}
			if i >= 0 {
				m.items = append(m.items[:i], m.items[i+1:]...)
			}
		},
		"": func(t *rapid.T) {
			ev.Eval()
			got := c.VerifKeys()
			if want := m.keys(); !reflect.DeepEqual(got, want) {
				t.Fatalf("cap=%d after %v: keys in recency order %v, model %v", capacity, trace, got, want)
			}
			if n := c.Len(); n != len(m.items) || n > capacity {
				t.Fatalf("cap=%d after %v: Len()=%d, model %d", capacity, trace, n, len(m.items))
			}
			if n := c.VerifMapLen(); n != len(m.items) {
				t.Fatalf("cap=%d after %v: index holds %d keys, list %d", capacity, trace, n, len(m.items))
			}
		},
	})
	ev.ClassN("evictions", evictions)
	ev.ClassN("gets-that-change-order", getsThatReorder)
	ev.Class(fmt.Sprintf("cap=%d", capacity))
	if evictAfterReorder {
		ev.Class("run:eviction-after-reordering-get")
		ev.NonTrivial(fmt.Sprint(capacity, trace), func() string { return fmt.Sprintf("cap=%d %v", capacity, trace) })
	}
}

func TestPropLRU(t *testing.T) { rapid.Check(t, propLRU) }

// ---------------------------------------------------------------- part B: router

type req struct{ method, path string }

func runRouter(tb *model.Table, hist []req) string {
	r := tb.Opts.NewRouter()
	var lastDyn req
	lastDynKey := ""
	model.Register(r, tb.Routes, func(d model.RouteDef) rux.HandlerFunc {
		h := plainHandler(d)
		// when the request asks for it, the handler first serves another request through the same router (a
		// sub-request, as an aggregating endpoint does)
		return func(c *rux.Context) {
			if p := c.Req.Header.Get("X-Nest-Path"); p != "" {
				r.ServeHTTP(httptest.NewRecorder(), &http.Request{Method: c.Req.Header.Get("X-Nest-Method"), URL: &url.URL{Path: p}, Header: http.Header{}})
			}
			h(c)
		}
	})
	return runRouterHistory(r, tb, hist, &lastDyn, &lastDynKey)
}

func plainHandler(d model.RouteDef) rux.HandlerFunc {
	{
		name := d.Name()
		// what a handler answers is its own business: some routes answer 404 or 500 themselves (a resource that
		// does not exist) - the request was resolved all the same, and the cache entry stays
		switch d.Idx % 4 {
		case 1:
			return func(c *rux.Context) { c.AbortWithStatus(404); c.WriteString(name) }
		case 2:
			return func(c *rux.Context) { c.SetStatus(500); c.WriteString(name) }
		case 3:
			return func(c *rux.Context) { http.NotFound(c.Resp, c.Req); c.WriteString(name) }
		}
		return func(c *rux.Context) { c.WriteString(name) }
	}
}

func runRouterHistory(r *rux.Router, tb *model.Table, hist []req, lastDyn *req, lastDynKey *string) string {
	for i, q := range hist {
		res := tb.Resolve(q.method, q.path)
		rt, ps, _ := r.Match(q.method, q.path)
		cache := r.VerifCache()
		if cache == nil {
			return "caching router with routes has no cache"
		}
		ctx := fmt.Sprintf("step %d %s %q (%s, norm %q)\n history %v\n table %s", i, q.method, q.path, res.Kind, res.Norm, hist[:i+1], tb)
		keys := cache.VerifKeys()
		if len(keys) > tb.Opts.CacheCap || cache.Len() > tb.Opts.CacheCap {
			return fmt.Sprintf("cache holds %d entries, capacity %d: %s", len(keys), tb.Opts.CacheCap, ctx)
		}
		dynamic := res.Route >= 0 && !tb.Routes[res.Route].P.IsStatic() && (res.Kind == model.Direct || res.Kind == model.HeadGet)
		if !dynamic {
			continue
		}
		if tb.Opts.CacheCap == 0 {
			// a cache of capacity zero holds nothing (checked above); the request is resolved all the same
			if rt == nil || model.RouteIndex(rt) != res.Route {
				return fmt.Sprintf("capacity 0: resolved to %v, model route %d: %s", rt, res.Route, ctx)
			}
			ev.Class("capacity-zero")
			continue
		}
		m := q.method
		if res.Kind == model.HeadGet {
			m = "GET"
		}
		want := m + res.Norm
		if len(keys) == 0 || keys[0] != want {
			return fmt.Sprintf("dynamic request resolved, most recent cache key should be %q, cache keys (recent first) are %q: %s", want, keys, ctx)
		}
		ev.Class(fmt.Sprintf("dynamic-match:tier%d", tb.Routes[res.Route].P.Tier()))
		// immediate repeat: same answer, key set unchanged, the entry is the one used
		rt2, ps2, _ := r.Match(q.method, q.path)
		if rt2 == nil || rt2.Name() != rt.Name() || !reflect.DeepEqual(ps, ps2) {
			return fmt.Sprintf("immediate repeat answers differently: %s", ctx)
		}
		if keys2 := cache.VerifKeys(); !reflect.DeepEqual(keys, keys2) {
			return fmt.Sprintf("immediate repeat changed the cache keys from %q to %q: %s", keys, keys2, ctx)
		}
		entry, ok := cache.Get(want)
		if !ok || entry.Name() != rt.Name() {
			return fmt.Sprintf("entry %q is not the route that answered: %s", want, ctx)
		}
		// "an immediate repeat is answered from the cache": what the repeat returned is the cached entry itself
		if rt2 != entry {
			return fmt.Sprintf("the immediate repeat was not answered from the cache: Match returned a route that is not the entry stored under %q: %s", want, ctx)
		}
		if rt2 != r.GetRoute(rt.Name()) {
			ev.Class("repeat-served-by-cached-copy")
		}
		rec := httptest.NewRecorder()
		r.ServeHTTP(rec, &http.Request{Method: q.method, URL: &url.URL{Path: q.path}, Header: http.Header{}})
		if !strings.HasSuffix(rec.Body.String(), rt.Name()) {
			return fmt.Sprintf("ServeHTTP after caching answers %q: %s", rec.Body.String(), ctx)
		}
		if keys3 := cache.VerifKeys(); len(keys3) == 0 || keys3[0] != want {
			return fmt.Sprintf("after ServeHTTP (answered %d) the entry %q should be the most recent one, cache keys (recent first) are %q: %s", rec.Code, want, keys3, ctx)
		}
		if rec.Code != 200 {
			ev.Class("resolved-request-answered-non-200-by-its-handler")
		}
		// the same request once more, its handler serving the previous dynamic request in the middle: the entry that
		// was used LAST is the nested one (the outer request used its entry when it was resolved, before its handlers ran)
		if *lastDynKey != "" && *lastDynKey != want && tb.Opts.CacheCap >= 2 {
			r.ServeHTTP(httptest.NewRecorder(), &http.Request{Method: q.method, URL: &url.URL{Path: q.path}, Header: http.Header{"X-Nest-Method": {lastDyn.method}, "X-Nest-Path": {lastDyn.path}}})
			if k := cache.VerifKeys(); len(k) < 2 || k[0] != *lastDynKey || k[1] != want {
				return fmt.Sprintf("%s %q served with %s %q nested in its handler: cache keys (recent first) %q, want %q then %q first: %s", q.method, q.path, lastDyn.method, lastDyn.path, k, *lastDynKey, want, ctx)
			}
			ev.Class("request-with-a-nested-request-in-its-handler")
			// put the order back to what the steps below assume
			r.ServeHTTP(httptest.NewRecorder(), &http.Request{Method: q.method, URL: &url.URL{Path: q.path}, Header: http.Header{}})
		}
		*lastDyn, *lastDynKey = q, want
	}
	return ""
}

func propRouter(t *rapid.T) {
	ev.Case()
	tb := &model.Table{}
	o := &tb.Opts
	o.Strict = rapid.Bool().Draw(t, "strict")
	o.NotAllowed = rapid.Bool().Draw(t, "handle405")
	o.Fallback = rapid.IntRange(0, 3).Draw(t, "fallback") == 0
	o.Caching = true
	o.CacheCap = rapid.IntRange(0, ev.Pick(4, 8)).Draw(t, "cap")
	o.Via, o.Order = model.GenVia(t), model.GenOrder(t)
	o.CacheStyle = model.GenCacheStyle(t)
	tc := model.TableCfg{MaxRoutes: 6, Gen: model.GenCfg{MaxSegs: 3}, Fallback: o.Fallback}
	tb.Routes = model.GenRoutes(t, tc, o.Strict)
	if len(tb.Routes) == 0 {
		t.Skip("empty table")
	}
	if rapid.IntRange(0, 3).Draw(t, "longPrefix") == 0 {
		// every route below one long first segment: cache keys of 130-600 bytes are keys like any other
		long := strings.Repeat(rapid.StringMatching(`[a-c]{10}`).Draw(t, "longUnit"), rapid.IntRange(13, 60).Draw(t, "longReps"))
		for i := range tb.Routes {
			if d := &tb.Routes[i]; d.P.Raw == "" {
				d.P.Segs = append([]model.Part{{Pre: long}}, d.P.Segs...)
			}
		}
		ev.Class("table:all-routes-below-a-long-first-segment")
	}
	var pool []req
	np := rapid.IntRange(2, 8).Draw(t, "npool")
	for len(pool) < np {
		path, _, target, _, _ := model.GenProbePath(t, tb.Routes)
		if !model.Stable(path, o.Strict) {
			path = "/stable"
		}
		method := rapid.SampledFrom([]string{"GET", "GET", "POST", "HEAD", "PUT"}).Draw(t, "method")
		if target >= 0 && rapid.Bool().Draw(t, "ownMethod") {
			method = rapid.SampledFrom(tb.Routes[target].Methods).Draw(t, "method")
		}
		pool = append(pool, req{method, path})
	}
	n := rapid.IntRange(3, ev.Pick(25, 100)).Draw(t, "nsteps")
	hist := make([]req, n)
	nontrivial := false
	for i := range hist {
		hist[i] = pool[rapid.IntRange(0, len(pool)-1).Draw(t, "pick")]
		ev.Eval()
		res := tb.Resolve(hist[i].method, hist[i].path)
		if res.Route >= 0 && tb.Routes[res.Route].P.Tier() == 1 {
			nontrivial = true
		}
	}
	if nontrivial {
		ev.NonTrivial(tb.String()+fmt.Sprint(hist), func() string { return fmt.Sprintf("%v | %s", hist, tb) })
	}
	if msg := runRouter(tb, hist); msg != "" {
		t.Fatalf("%s", msg)
	}
}

func TestPropRouter(t *testing.T) { rapid.Check(t, propRouter) }

func TestRegress(t *testing.T) {
	tb := model.T(model.Options{Caching: true, CacheCap: 2}, "GET /users/{id}", "GET /{x}")
	if msg := runRouter(tb, []req{{"GET", "/users/5"}, {"GET", "/q"}, {"HEAD", "/users/7"}, {"GET", "/users/5"}}); msg != "" {
		t.Errorf("D3: %s", msg)
	}
}

// propRaceOps: the cache operations issued concurrently from several goroutines (the router does exactly that when
// the first requests for one path arrive together). Oracle afterwards: the structure is still a bounded map - no
// key twice in the list, list and index agree, not more entries than the capacity, every listed key is found -
// and the race detector stays silent (this test is built with -race by the driver).
func propRaceOps(t *rapid.T) {
	ev.Case()
	capacity := rapid.IntRange(1, 3).Draw(t, "cap")
	nkeys := rapid.IntRange(1, 4).Draw(t, "nkeys")
	ng := rapid.IntRange(2, 8).Draw(t, "goroutines")
	rounds := rapid.IntRange(50, ev.Pick(300, 2000)).Draw(t, "rounds")
	c := rux.NewCachedRoutes(capacity)
	keys := make([]string, nkeys)
	for i := range keys {
		keys[i] = fmt.Sprintf("GET/k%d", i)
	}
	route := rux.NewNamedRoute("v", "/x", func(*rux.Context) {})
	// every goroutine gets its own pre-drawn op list (no private randomness)
	plans := make([][]int, ng)
	for g := range plans {
		plans[g] = rapid.SliceOfN(rapid.IntRange(0, 4*nkeys-1), 4, 12).Draw(t, "plan")
	}
	for round := 0; round < rounds; round++ {
		var wg sync.WaitGroup
		start := make(chan struct{})
		for g := 0; g < ng; g++ {
			wg.Add(1)
			go func(plan []int) {
				defer wg.Done()
				<-start
				for _, op := range plan {
					k := keys[op%nkeys]
					switch op / nkeys {
					case 0, 1:
						c.Set(k, route)
					case 2:
						c.Get(k)
					default:
						c.Delete(k)
					}
				}
			}(plans[g])
		}
		close(start)
		wg.Wait()
		ev.Eval()
		got := c.VerifKeys()
		seen := map[string]bool{}
		for _, k := range got {
			if seen[k] {
				t.Fatalf("round %d: key %q is twice in the cache list %v (capacity %d, %d goroutines, plans %v)", round, k, got, capacity, ng, plans)
			}
			seen[k] = true
			if !c.Has(k) {
				t.Fatalf("round %d: key %q is in the list %v but Has() does not find it (plans %v)", round, k, got, plans)
			}
		}
		if n := c.Len(); n != len(got) || n != c.VerifMapLen() || n > capacity {
			t.Fatalf("round %d: Len()=%d, list %v, index size %d, capacity %d (plans %v)", round, n, got, c.VerifMapLen(), capacity, plans)
		}
	}
	ev.NonTrivial(fmt.Sprint(capacity, plans), func() string {
		return fmt.Sprintf("capacity %d, %d goroutines, plans %v, %d rounds", capacity, ng, plans, rounds)
	})
}

func TestRaceOps(t *testing.T) { rapid.Check(t, propRaceOps) }

// propLRUWithReaders: "a key just read is the most recent" while other goroutines only LOOK at the cache (Has, Len) -
// looking changes no order, so the sequential model still decides what is evicted.  One goroutine runs the script
// Set a, Set b, Get a, Set c (capacity 2: b must go, a must stay) over and over with fresh keys.
func propLRUWithReaders(t *rapid.T) {
	ev.Case()
	capacity := rapid.IntRange(2, 3).Draw(t, "cap")
	readers := rapid.IntRange(1, 4).Draw(t, "readers")
	rounds := rapid.IntRange(50, ev.Pick(300, 3000)).Draw(t, "rounds")
	c := rux.NewCachedRoutes(capacity)
	route := rux.NewNamedRoute("v", "/x", func(*rux.Context) {})
	stop := make(chan struct{})
	var wg sync.WaitGroup
	for g := 0; g < readers; g++ {
		wg.Add(1)
		go func(g int) {
			defer wg.Done()
			for i := 0; ; i++ {
				select {
				case <-stop:
					return
				default:
				}
				_ = c.Has(fmt.Sprintf("GET/r%d", i%7))
				_ = c.Len()
			}
		}(g)
	}
	msg := ""
	for i := 0; i < rounds && msg == ""; i++ {
		keys := make([]string, capacity+1)
		for j := range keys {
			keys[j] = fmt.Sprintf("GET/k%d-%d", i, j)
		}
		for _, k := range keys[:capacity] {
			c.Set(k, route)
		}
		if _, ok := c.Get(keys[0]); !ok { // the oldest key is read: now it is the most recent one
			msg = fmt.Sprintf("round %d: %s just stored is not found", i, keys[0])
			break
		}
		c.Set(keys[capacity], route) // full: the least recently used key goes - that is keys[1]
		if !c.Has(keys[0]) || c.Has(keys[1]) || !c.Has(keys[capacity]) || c.Len() > capacity {
			msg = fmt.Sprintf("round %d, capacity %d, %d readers: after Set %v, Get %s, Set %s the cache holds %s=%v %s=%v %s=%v len=%d; the key just read must stay, the least recently used one must go",
				i, capacity, readers, keys[:capacity], keys[0], keys[capacity], keys[0], c.Has(keys[0]), keys[1], c.Has(keys[1]), keys[capacity], c.Has(keys[capacity]), c.Len())
		}
	}
	close(stop)
	wg.Wait()
	ev.Eval()
	if msg != "" {
		t.Fatalf("%s", msg)
	}
	ev.ClassN("lru-rounds-with-concurrent-readers", rounds)
	ev.NonTrivial(fmt.Sprint("readers", capacity, readers, rounds), func() string {
		return fmt.Sprintf("capacity %d, %d readers, %d rounds", capacity, readers, rounds)
	})
}

func TestPropLRUWithReaders(t *testing.T) { rapid.Check(t, propLRUWithReaders) }
