// Package ev collects, inside the test process, what a run actually covered
// and dumps it to the file named by VERIF_STATS (merged by /verif/check).
package ev

import (
	"encoding/binary"
	"encoding/json"
	"hash/fnv"
	"os"
	"sort"
	"sync"
	"testing"
)

const (
	maxSamples = 6
	// the per-process set of distinct hashes saturates here (counted conservatively)
	MaxHashes = 250000
)

var (
	mu       sync.Mutex
	cases    int64
	evals    int64
	classes  = map[string]int64{}
	hashes   = map[uint64]struct{}{}
	samples  []string
	excluded = map[string]int64{}
	notes    = map[string]string{}
)

// Case counts one generated case (one execution of a property function).
func Case() { mu.Lock(); cases++; mu.Unlock() }

// Eval counts one oracle evaluation (probe, request, step...).
func Eval() { mu.Lock(); evals++; mu.Unlock() }

// Class adds one to a histogram bucket.
func Class(name string) { mu.Lock(); classes[name]++; mu.Unlock() }

// ClassN adds n to a histogram bucket.
func ClassN(name string, n int) { mu.Lock(); classes[name] += int64(n); mu.Unlock() }

// Excluded counts a case that was removed from generation because of a listed known finding.
func Excluded(name string) { mu.Lock(); excluded[name]++; mu.Unlock() }

// Note stores a free-text remark for the evidence file.
func Note(k, v string) { mu.Lock(); notes[k] = v; mu.Unlock() }

// NonTrivial records one non-trivial case identified by key; sample renders it
// (only called for the first few).
func NonTrivial(key string, sample func() string) {
	h := fnv.New64a()
	h.Write([]byte(key))
	v := h.Sum64()
	mu.Lock()
	defer mu.Unlock()
	if _, ok := hashes[v]; ok {
		return
	}
	if len(hashes) < MaxHashes {
		hashes[v] = struct{}{}
	}
	if len(samples) < maxSamples && sample != nil {
		samples = append(samples, sample())
	}
}

type dump struct {
	Cases     int64             `json:"cases"`
	Evals     int64             `json:"evals"`
	Classes   map[string]int64  `json:"classes"`
	Samples   []string          `json:"samples"`
	Excluded  map[string]int64  `json:"excluded"`
	Notes     map[string]string `json:"notes"`
	NHashes   int               `json:"nhashes"`
	HashFile  string            `json:"hash_file"`
	Saturated bool              `json:"saturated"`
}

// Main runs the tests of a package and writes the counters.
func Main(m *testing.M) {
	code := m.Run()
	Dump()
	os.Exit(code)
}

// Dump writes the counters to $VERIF_STATS (no-op when unset).
func Dump() {
	path := os.Getenv("VERIF_STATS")
	if path == "" {
		return
	}
	mu.Lock()
	defer mu.Unlock()
	hs := make([]uint64, 0, len(hashes))
	for h := range hashes {
		hs = append(hs, h)
	}
	sort.Slice(hs, func(i, j int) bool { return hs[i] < hs[j] })
	buf := make([]byte, 8*len(hs))
	for i, h := range hs {
		binary.LittleEndian.PutUint64(buf[8*i:], h)
	}
	_ = os.WriteFile(path+".hashes", buf, 0o644)
	d := dump{Cases: cases, Evals: evals, Classes: classes, Samples: samples, Excluded: excluded,
		Notes: notes, NHashes: len(hs), HashFile: path + ".hashes", Saturated: len(hs) >= MaxHashes}
	b, _ := json.Marshal(d)
	_ = os.WriteFile(path, b, 0o644)
}

// Tier returns "quick" or "thorough".
func Tier() string {
	if os.Getenv("VERIF_TIER") == "thorough" {
		return "thorough"
	}
	return "quick"
}

// Thorough reports whether the thorough tier was requested.
func Thorough() bool { return Tier() == "thorough" }

// Pick returns q in the quick tier and th in the thorough tier.
func Pick(q, th int) int {
	if Thorough() {
		return th
	}
	return q
}
