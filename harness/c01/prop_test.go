// C01 — route selection follows the documented pattern semantics.
// Differential check of Router.Match / ServeHTTP against the reference model.
package c01

import (
	"fmt"
	"net/http"
	"net/http/httptest"
	"net/url"
	"strings"
	"testing"

	"github.com/gookit/rux"
	"pgregory.net/rapid"

	"verifharness/ev"
	"verifharness/model"
)

func TestMain(m *testing.M) { ev.Main(m) }

// encodedMode: the router under test uses UseEncodedPath; probe paths are escaped paths then and request URLs are
// parsed from them (set per case by prop).
var encodedMode bool

func reqURL(path string) *url.URL {
	if encodedMode {
		if u, err := url.ParseRequestURI(path); err == nil && u.EscapedPath() == path {
			return u
		}
	}
	return &url.URL{Path: path}
}

func serve(r *rux.Router, method, path string) (int, string) {
	rec := httptest.NewRecorder()
	req := &http.Request{Method: method, URL: reqURL(path), Header: http.Header{}, Proto: "HTTP/1.1"}
	r.ServeHTTP(rec, req)
	return rec.Code, rec.Body.String()
}

// serveBehindStripPrefix sends the request for /pre<path> through http.StripPrefix("/pre", r), RequestURI set as a
// server sets it: the router gets <path> in the request's URL.
func serveBehindStripPrefix(r *rux.Router, method, path string) (int, string) {
	u := reqURL(path)
	pre := &http.Request{Method: method, URL: &url.URL{Path: "/pre" + u.Path}, Header: http.Header{}, Proto: "HTTP/1.1", RequestURI: "/pre" + u.EscapedPath()}
	if u.RawPath != "" || encodedMode {
		pre.URL.RawPath = "/pre" + u.EscapedPath()
	}
	rec := httptest.NewRecorder()
	http.StripPrefix("/pre", r).ServeHTTP(rec, pre)
	return rec.Code, rec.Body.String()
}

// build registers the table. viaGroup[i] = k > 0 means: route i is registered inside Group(<first k segments>)
// with the rest of the pattern as its own path - the registered pattern is the same text.
func build(tb *model.Table, viaGroup []int) *rux.Router {
	r := tb.Opts.NewRouter()
	for i, d := range tb.Routes {
		name := d.Name()
		h := func(c *rux.Context) { c.WriteString(name) }
		k := 0
		if i < len(viaGroup) {
			k = viaGroup[i]
		}
		if k <= 0 || k >= len(d.P.Segs) || d.P.Raw != "" {
			model.RegisterOne(r, d, d.P.String(), h)
			continue
		}
		prefix := model.Pattern{Segs: d.P.Segs[:k]}.String()
		rest := model.Pattern{Segs: d.P.Segs[k:], Opt: d.P.Opt, TrailSlash: d.P.TrailSlash}.String()
		// the prefix in one of its equivalent spellings (Group normalises it like a route path)
		switch (i / 2) % 4 {
		case 1:
			if !tb.Opts.Strict {
				prefix += "/"
			}
		case 2:
			prefix = strings.TrimPrefix(prefix, "/")
		case 3:
			prefix = " " + prefix + "\t"
		}
		r.Group(prefix, func() {
			if i%2 == 1 {
				// a nested group (with a route of its own that no probe asks for) opens and closes first: the
				// enclosing group's prefix is in force again afterwards
				r.Group(fmt.Sprintf("/zz-nested-%d", i), func() { r.GET("/decoy", func(c *rux.Context) { c.WriteString("decoy") }) })
			}
			model.RegisterOne(r, d, rest, h)
		})
	}
	return r
}

// introspect calls read-only API: none of it may change how requests are routed.
func introspect(r *rux.Router, which int) {
	switch which {
	case 0:
		_ = r.String()
	case 1:
		_ = r.Routes()
	case 2:
		r.IterateRoutes(func(rt *rux.Route) { _ = rt.String(); _ = rt.Info() })
	case 3:
		for _, rt := range r.NamedRoutes() {
			_, _, _ = rt.Name(), rt.MethodString(","), rt.HandlerName()
		}
	case 4:
		_ = r.Handlers()
		_ = r.GetRoute("r0")
		_ = rux.AnyMethods()
		_ = r.Err()
	}
}

// superfluousEscape percent-encodes the first ASCII letter or digit of an otherwise escaped path ("" if there is none).
func superfluousEscape(path string) string {
	esc := (&url.URL{Path: path}).EscapedPath()
	for i := 0; i < len(esc); i++ {
		c := esc[i]
		if c == '%' {
			i += 2
			continue
		}
		if (c >= 'a' && c <= 'z') || (c >= 'A' && c <= 'Z') || (c >= '0' && c <= '9') {
			return esc[:i] + fmt.Sprintf("%%%02X", c) + esc[i+1:]
		}
	}
	return ""
}

// checkProbe compares rux with the model for one (method, path); it returns an error text or "".
func checkProbe(r *rux.Router, tb *model.Table, method, path string) string {
	res := tb.Resolve(method, path)
	for rep := 0; rep < 2; rep++ { // the second lookup may be served from the cache
		rt, _, _ := r.Match(method, path)
		if got := model.RouteIndex(rt); got != res.Route {
			return fmt.Sprintf("Match(%s,%q) norm=%q lookup#%d: got route %d, model says %d (%s, %d candidates)\n table: %s",
				method, path, res.Norm, rep, got, res.Route, res.Kind, res.NMatch, tb)
		}
	}
	// Match takes the method name in any case (it upper-cases it, as the registration side does)
	for _, m := range []string{strings.ToLower(method), method[:1] + strings.ToLower(method[1:])} {
		if rt, _, _ := r.Match(m, path); model.RouteIndex(rt) != res.Route {
			return fmt.Sprintf("Match(%s,%q): got route %d, Match(%s,...) gave %d\n table: %s", m, path, model.RouteIndex(rt), method, res.Route, tb)
		}
	}
	// the same path sent with a superfluous percent escape (an unreserved character escaped): the decoded path is what
	// the router matches (UseEncodedPath is off here), so the answer is the same
	if raw := superfluousEscape(path); raw != "" && !encodedMode {
		if u, err := url.ParseRequestURI(raw); err == nil && u.Path == path {
			rec := httptest.NewRecorder()
			r.ServeHTTP(rec, &http.Request{Method: method, URL: u, RequestURI: raw, Header: http.Header{}, Proto: "HTTP/1.1"})
			plainCode, plainBody := serve(r, method, path)
			if rec.Code != plainCode || rec.Body.String() != plainBody {
				return fmt.Sprintf("ServeHTTP(%s, raw %q): %d %q, the decoded path %q alone gives %d %q\n table: %s", method, raw, rec.Code, rec.Body.String(), path, plainCode, plainBody, tb)
			}
			ev.Class("request-with-a-superfluous-percent-escape")
		}
	}
	code, body := serve(r, method, path)
	if strings.HasPrefix(path, "/") {
		if c2, b2 := serveBehindStripPrefix(r, method, path); c2 != code || b2 != body {
			return fmt.Sprintf("ServeHTTP(%s,%q): %d %q directly, %d %q behind http.StripPrefix(/pre)\n table: %s", method, path, code, body, c2, b2, tb)
		}
	}
	want := "404"
	if res.Route >= 0 {
		want = tb.Routes[res.Route].Name()
		if code != 200 || body != want {
			return fmt.Sprintf("ServeHTTP(%s,%q): got %d %q, model says route %s\n table: %s", method, path, code, body, want, tb)
		}
	} else if code != 404 {
		return fmt.Sprintf("ServeHTTP(%s,%q): got %d %q, model says 404\n table: %s", method, path, code, body, tb)
	}
	return ""
}

func prop(t *rapid.T) {
	ev.Case()
	tb := &model.Table{}
	tb.Opts.Strict = rapid.Bool().Draw(t, "strict")
	if rapid.Bool().Draw(t, "caching") {
		tb.Opts.Caching = true
		tb.Opts.CacheCap = rapid.IntRange(0, 3).Draw(t, "cap")
	}
	tb.Opts.Via, tb.Opts.Order = model.GenVia(t), model.GenOrder(t)
	// "a request is dispatched to a route only if that route allows the method" also holds for the '/*' routes
	// of the fallback option
	tb.Opts.Fallback = rapid.IntRange(0, 3).Draw(t, "fallback") == 0
	// UseEncodedPath: the escaped path is "the path" then (one table in five)
	tb.Opts.EncodedPath = rapid.IntRange(0, 4).Draw(t, "useEncodedPath") == 0
	encodedMode = tb.Opts.EncodedPath
	defer func() { encodedMode = false }()
	cfg := model.TableCfg{MaxRoutes: ev.Pick(8, 14), Gen: model.GenCfg{MaxSegs: ev.Pick(3, 4), RichLits: true}, Fallback: tb.Opts.Fallback}
	tb.Routes = model.GenRoutes(t, cfg, tb.Opts.Strict)
	if len(tb.Routes) == 0 {
		t.Skip("empty table")
	}
	if model.LongPrefix(t, tb.Routes, 6) {
		ev.Class("table:all-routes-below-a-long-first-segment")
	}
	if rapid.IntRange(0, 7).Draw(t, "interceptAll") == 0 {
		// InterceptAll(p): every request is a request for p - p is a path like any other (trailing slash under
		// strict mode, decorations), whatever the order of the options
		p, _, _, _, _ := model.GenProbePath(t, tb.Routes)
		if tb.Opts.Strict && rapid.Bool().Draw(t, "interceptTrailingSlash") {
			p = strings.TrimRight(p, "/") + "/"
		}
		if model.Stable(p, tb.Opts.Strict) {
			tb.Opts.Intercept, tb.Opts.InterceptTo = true, p
			ev.Class("table:InterceptAll")
		}
	}
	viaGroup := make([]int, len(tb.Routes))
	for i, d := range tb.Routes {
		if len(d.P.Segs) >= 2 && rapid.IntRange(0, 3).Draw(t, "viaGroup") == 0 {
			viaGroup[i] = rapid.IntRange(1, len(d.P.Segs)-1).Draw(t, "groupSegs")
			ev.Class("route-registered-inside-a-group")
		}
	}
	r := build(tb, viaGroup)
	for i, d := range tb.Routes {
		if rt := r.GetRoute(d.Name()); rt == nil || rt.Path() != model.Normalize(d.P.String(), tb.Opts.Strict) {
			t.Fatalf("route %d registered as %v, pattern %q (group segments %d)\n table: %s", i, rt, d.P.String(), viaGroup[i], tb)
		}
	}
	np := rapid.IntRange(1, 8).Draw(t, "nprobes")
	var lookups []model.Lookup
	for i := 0; i < np; i++ {
		if rapid.IntRange(0, 5).Draw(t, "introspect") == 0 {
			introspect(r, rapid.IntRange(0, 4).Draw(t, "introspectWhat"))
			ev.Class("introspection-between-requests")
		}
		path, kind, target, _, _ := model.GenProbePath(t, tb.Routes)
		var method string
		if target >= 0 && rapid.IntRange(0, 9).Draw(t, "ownMethod") < 7 {
			method = rapid.SampledFrom(tb.Routes[target].Methods).Draw(t, "method")
		} else {
			method = rapid.SampledFrom(append(append([]string{}, model.Methods...), "PURGE")).Draw(t, "method")
		}
		if tb.Opts.EncodedPath {
			esc := (&url.URL{Path: path}).EscapedPath()
			if u := reqURL(esc); u.EscapedPath() != esc || !strings.HasPrefix(esc, "/") {
				ev.Class("skipped:escaped-path-does-not-survive-parsing")
				continue
			}
			path = esc
		}
		if !model.Stable(path, tb.Opts.Strict) {
			ev.Class("skipped:unstable-path")
			continue
		}
		ev.Eval()
		res := tb.Resolve(method, path)
		ev.Class("probe:" + kind)
		ev.Class("result:" + res.Kind.String())
		nontrivial := false
		if res.NMatch >= 2 {
			ev.Class("multi-match")
			nontrivial = true
		}
		if res.ByTier {
			ev.Class("multi-match:tier-rule-overrides-registration-order")
		}
		if kind == "nearmiss" && target >= 0 && res.Route != target {
			ev.Class("nearmiss-rejected-by-target")
			nontrivial = true
		}
		if res.Route >= 0 {
			ev.Class(fmt.Sprintf("winner-tier:%d", tb.Routes[res.Route].P.Tier()))
		}
		if nontrivial {
			ev.NonTrivial(tb.String()+"|"+method+"|"+path, func() string {
				return fmt.Sprintf("%s %q -> %s route=%d candidates=%d | %s", method, path, res.Kind, res.Route, res.NMatch, tb)
			})
		}
		if msg := checkProbe(r, tb, method, path); msg != "" {
			t.Fatalf("%s", msg)
		}
		lookups = append(lookups, model.Lookup{Method: method, Path: path, Route: res.Route})
	}
	// the same lookups from several goroutines at once give the same answers (one case in twelve)
	if rapid.IntRange(0, 11).Draw(t, "concurrentLookups") == 0 {
		if msg := model.ConcurrentLookups(r, lookups, 4, ev.Pick(300, 2000)); msg != "" {
			t.Fatalf("%s\n table: %s", msg, tb)
		}
		ev.Class("lookups-repeated-concurrently")
	}
}

func TestProp(t *testing.T) { rapid.Check(t, prop) }
