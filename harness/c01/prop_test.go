// C01 — route selection follows the documented pattern semantics.
// Differential check of Router.Match / ServeHTTP against the reference model.
package c01

import (
	"fmt"
	"net/http"
	"net/http/httptest"
	"net/url"
	"testing"

	"github.com/gookit/rux"
	"pgregory.net/rapid"

	"verifharness/ev"
	"verifharness/model"
)

func TestMain(m *testing.M) { ev.Main(m) }

func serve(r *rux.Router, method, path string) (int, string) {
	rec := httptest.NewRecorder()
	req := &http.Request{Method: method, URL: &url.URL{Path: path}, Header: http.Header{}, Proto: "HTTP/1.1"}
	r.ServeHTTP(rec, req)
	return rec.Code, rec.Body.String()
}

func build(tb *model.Table) *rux.Router {
	r := rux.New(tb.Opts.Rux()...)
	model.Register(r, tb.Routes, func(d model.RouteDef) rux.HandlerFunc {
		name := d.Name()
		return func(c *rux.Context) { c.WriteString(name) }
	})
	return r
}

// checkProbe compares rux with the model for one (method, path); it returns an error text or "".
func checkProbe(r *rux.Router, tb *model.Table, method, path string) string {
	res := tb.Resolve(method, path)
	for rep := 0; rep < 2; rep++ { // the second lookup may be served from the cache
		rt, _, _ := r.Match(method, path)
		if got := model.RouteIndex(rt); got != res.Route {
			return fmt.Sprintf("Match(%s,%q) norm=%q lookup#%d: got route %d, model says %d (%s, %d candidates)\n table: %s",
				method, path, res.Norm, rep, got, res.Route, res.Kind, res.NMatch, tb)
		}
	}
	code, body := serve(r, method, path)
	want := "404"
	if res.Route >= 0 {
		want = tb.Routes[res.Route].Name()
		if code != 200 || body != want {
			return fmt.Sprintf("ServeHTTP(%s,%q): got %d %q, model says route %s\n table: %s", method, path, code, body, want, tb)
		}
	} else if code != 404 {
		return fmt.Sprintf("ServeHTTP(%s,%q): got %d %q, model says 404\n table: %s", method, path, code, body, tb)
	}
	return ""
}

func prop(t *rapid.T) {
	ev.Case()
	tb := &model.Table{}
	tb.Opts.Strict = rapid.Bool().Draw(t, "strict")
	if rapid.Bool().Draw(t, "caching") {
		tb.Opts.Caching = true
		tb.Opts.CacheCap = rapid.IntRange(0, 3).Draw(t, "cap")
	}
	cfg := model.TableCfg{MaxRoutes: ev.Pick(8, 14), Gen: model.GenCfg{MaxSegs: ev.Pick(3, 4), RichLits: true}}
	tb.Routes = model.GenRoutes(t, cfg, tb.Opts.Strict)
	if len(tb.Routes) == 0 {
		t.Skip("empty table")
	}
	r := build(tb)
	np := rapid.IntRange(1, 8).Draw(t, "nprobes")
	for i := 0; i < np; i++ {
		path, kind, target, _, _ := model.GenProbePath(t, tb.Routes)
		var method string
		if target >= 0 && rapid.IntRange(0, 9).Draw(t, "ownMethod") < 7 {
			method = rapid.SampledFrom(tb.Routes[target].Methods).Draw(t, "method")
		} else {
			method = rapid.SampledFrom(append(append([]string{}, model.Methods...), "PURGE")).Draw(t, "method")
		}
		if !model.Stable(path, tb.Opts.Strict) {
			ev.Class("skipped:unstable-path")
			continue
		}
		ev.Eval()
		res := tb.Resolve(method, path)
		ev.Class("probe:" + kind)
		ev.Class("result:" + res.Kind.String())
		nontrivial := false
		if res.NMatch >= 2 {
			ev.Class("multi-match")
			nontrivial = true
		}
		if res.ByTier {
			ev.Class("multi-match:tier-rule-overrides-registration-order")
		}
		if kind == "nearmiss" && target >= 0 && res.Route != target {
			ev.Class("nearmiss-rejected-by-target")
			nontrivial = true
		}
		if res.Route >= 0 {
			ev.Class(fmt.Sprintf("winner-tier:%d", tb.Routes[res.Route].P.Tier()))
		}
		if nontrivial {
			ev.NonTrivial(tb.String()+"|"+method+"|"+path, func() string {
				return fmt.Sprintf("%s %q -> %s route=%d candidates=%d | %s", method, path, res.Kind, res.Route, res.NMatch, tb)
			})
		}
		if msg := checkProbe(r, tb, method, path); msg != "" {
			t.Fatalf("%s", msg)
		}
	}
}

func TestProp(t *testing.T) { rapid.Check(t, prop) }
