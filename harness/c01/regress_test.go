package c01

import (
	"testing"

	"verifharness/model"
)

// Shrunk reproductions of the defects this check found (DESIGN.md section 7), as plain tests.
var regress = []struct {
	name   string
	tb     *model.Table
	probes [][2]string
}{
	{"D1-second-irregular-route-erases-first", model.T(model.Options{}, "GET /{a}", "GET /x[/{b}]"),
		[][2]string{{"GET", "/foo"}, {"GET", "/x"}, {"GET", "/x/1"}}},
	{"D1-three-irregular", model.T(model.Options{}, "ANY /[a]", "ANY /[a]", "GET /{id}"),
		[][2]string{{"GET", "/"}, {"GET", "/a"}, {"GET", "/q"}, {"POST", "/a"}}},
	{"D2-dot-in-literal-prefix", model.T(model.Options{}, "GET /v1.0/users/{id}", "GET /users/v1.0/{id}", "GET /a.b/{x}"),
		[][2]string{{"GET", "/v1.0/users/5"}, {"GET", "/users/v1.0/5"}, {"GET", "/a.b/c"}, {"GET", "/v1x0/users/5"}, {"GET", "/aXb/c"}}},
	{"D16-variable-less-optional-is-regular", model.T(model.Options{}, "ANY /[{all}]", "ANY /a/b/c[/d]"),
		[][2]string{{"GET", "/a/b/c"}, {"GET", "/a/b/c/d"}, {"GET", "/a/b"}, {"GET", "/zz"}}},
	{"D16-dot-optional", model.T(model.Options{}, "GET /{all}", "GET /blog/index[.html]"),
		[][2]string{{"GET", "/blog/index"}, {"GET", "/blog/index.html"}, {"GET", "/blog/indexXhtml"}}},
}

func TestRegress(t *testing.T) {
	for _, c := range regress {
		t.Run(c.name, func(t *testing.T) {
			r := build(c.tb, nil)
			for _, p := range c.probes {
				if msg := checkProbe(r, c.tb, p[0], p[1]); msg != "" {
					t.Errorf("%s", msg)
				}
			}
		})
	}
}
