// C06 — unmatched requests resolve HEAD->GET, fallback route, 405/Allow, 404 in order.
package c06

import (
	"fmt"
	"net/http"
	"net/http/httptest"
	"net/url"
	"sort"
	"strings"
	"testing"

	"github.com/gookit/rux"
	"pgregory.net/rapid"

	"verifharness/ev"
	"verifharness/model"
)

func TestMain(m *testing.M) { ev.Main(m) }

type cfg struct {
	tb       *model.Table
	customNF bool
	customNA bool
	nGlobal  int // pass-through global middleware (they must not change the resolution)
}

func (c cfg) String() string {
	return fmt.Sprintf("customNotFound=%v customNotAllowed=%v globalMw=%d %s", c.customNF, c.customNA, c.nGlobal, c.tb)
}

func build(c cfg, opts model.Options) *rux.Router {
	r := opts.NewRouter()
	for i := 0; i < c.nGlobal; i++ {
		r.Use(func(c *rux.Context) { c.Next() }) // separate Use calls: the global chain grows by append
	}
	// the last global middleware serves, when the request asks for it, another request through the same router
	// before it goes on: two resolutions overlap (as two requests in flight do), and neither may disturb the other
	r.Use(func(c *rux.Context) {
		if m, p := c.Req.Header.Get("X-Nest-Method"), c.Req.Header.Get("X-Nest-Path"); m != "" {
			r.ServeHTTP(httptest.NewRecorder(), &http.Request{Method: m, URL: &url.URL{Path: p}, Header: http.Header{}, Proto: "HTTP/1.1"})
		}
		c.Next()
	})
	model.Register(r, c.tb.Routes, func(d model.RouteDef) rux.HandlerFunc {
		name := d.Name()
		return func(c *rux.Context) {
			// an internal redirect: the handler points the request somewhere else and hands its context back to the
			// router; that second resolution is a resolution like any other
			if m, p := c.Req.Header.Get("X-Redirect-Method"), c.Req.Header.Get("X-Redirect-Path"); m != "" {
				c.Req.Header.Del("X-Redirect-Method")
				c.Req.Method, c.Req.URL = m, &url.URL{Path: p}
				r.HandleContext(c)
				return
			}
			c.WriteString(name)
		}
	})
	if len(c.tb.Routes) > 0 && c.nGlobal%2 == 1 {
		model.RejectedOptions(r, opts) // too late for options: refused, and the router stays as it is
	}
	// an application that keeps its not-found / not-allowed handlers in a list passes an empty list: same as none
	if !c.customNF && c.nGlobal >= 2 {
		r.NotFound([]rux.HandlerFunc{}...)
	}
	if !c.customNA && c.nGlobal >= 2 {
		r.NotAllowed(make([]rux.HandlerFunc, 0, 2)...)
	}
	if c.customNF {
		r.NotFound(func(c *rux.Context) { c.SetStatus(404); c.WriteString("NF") })
	}
	if c.customNA {
		r.NotAllowed(func(c *rux.Context) {
			own, _ := c.SafeGet(rux.CTXAllowedMethods).([]string)
			al := append([]string{}, own...)
			sort.Strings(al)
			c.SetStatus(405)
			c.WriteString("NA:" + strings.Join(al, ","))
			for i := range own { // the handler filters / rewrites the list it was given in place
				own[i] = strings.ToLower(own[i])
			}
		})
	}
	return r
}

func serve(r *rux.Router, method, path string) *httptest.ResponseRecorder {
	rec := httptest.NewRecorder()
	r.ServeHTTP(rec, &http.Request{Method: method, URL: &url.URL{Path: path}, Header: http.Header{}, Proto: "HTTP/1.1"})
	return rec
}

func sortedCopy(a []string) []string {
	b := append([]string{}, a...)
	sort.Strings(b)
	return b
}

func checkProbe(r *rux.Router, c cfg, method, path string) string {
	tb := c.tb
	res := tb.Resolve(method, path)
	ctx := fmt.Sprintf("%s %q (norm %q) model: %s route=%d allowed=%v\n config: %s", method, path, res.Norm, res.Kind, res.Route, res.Allowed, c)
	for rep := 0; rep < 2; rep++ {
		rt, ps, alm := r.Match(method, path)
		if got := model.RouteIndex(rt); got != res.Route {
			return fmt.Sprintf("Match lookup#%d: route %d: %s", rep, got, ctx)
		}
		if res.Kind == model.Fallback && len(ps) != 0 {
			return fmt.Sprintf("fallback route with params %v: %s", ps, ctx)
		}
		got := sortedCopy(alm)
		if strings.Join(got, ",") != strings.Join(res.Allowed, ",") {
			return fmt.Sprintf("Match lookup#%d: allowed methods %v: %s", rep, got, ctx)
		}
		// the slice belongs to the caller now: whatever it does to it stays its own business
		for i := range alm {
			alm[i] = "overwritten-by-the-caller-of-Match"
		}
	}
	rec := serve(r, method, path)
	body := rec.Body.String()
	// the same request arriving for /pre<path> and handed on by http.StripPrefix (RequestURI as a server sets it): the
	// router resolves the path in the request's URL, with every option
	if strings.HasPrefix(path, "/") {
		pre := &http.Request{Method: method, URL: &url.URL{Path: "/pre" + path}, Header: http.Header{}, Proto: "HTTP/1.1", RequestURI: "/pre" + (&url.URL{Path: path}).EscapedPath()}
		rec2 := httptest.NewRecorder()
		http.StripPrefix("/pre", r).ServeHTTP(rec2, pre)
		if rec2.Code != rec.Code || rec2.Body.String() != body || rec2.Result().Header.Get("Allow") != rec.Result().Header.Get("Allow") {
			return fmt.Sprintf("behind http.StripPrefix(/pre): %d %q Allow=%q, directly %d %q Allow=%q: %s", rec2.Code, rec2.Body.String(), rec2.Result().Header.Get("Allow"), rec.Code, body, rec.Result().Header.Get("Allow"), ctx)
		}
	}
	switch res.Kind {
	case model.Direct, model.HeadGet, model.Fallback:
		if want := tb.Routes[res.Route].Name(); rec.Code != 200 || body != want {
			return fmt.Sprintf("ServeHTTP: %d %q, want 200 %q: %s", rec.Code, body, want, ctx)
		}
	case model.NotAllowed:
		if c.customNA {
			if want := "NA:" + strings.Join(res.Allowed, ","); rec.Code != 405 || body != want {
				return fmt.Sprintf("ServeHTTP: %d %q, want 405 %q: %s", rec.Code, body, want, ctx)
			}
		} else {
			wantCode := 405
			if method == "OPTIONS" {
				wantCode = 200
			}
			if rec.Code != wantCode {
				return fmt.Sprintf("ServeHTTP: status %d, want %d: %s", rec.Code, wantCode, ctx)
			}
			// the header as it went out with the status line (Result() is the snapshot taken at the commit), not the
			// live map a handler may still write to afterwards
			if got, want := rec.Result().Header.Get("Allow"), strings.Join(res.Allowed, ", "); got != want {
				return fmt.Sprintf("ServeHTTP: Allow header sent %q, want %q: %s", got, want, ctx)
			}
		}
	case model.NotFound:
		if rec.Code != 404 || (c.customNF && body != "NF") {
			return fmt.Sprintf("ServeHTTP: %d %q, want 404: %s", rec.Code, body, ctx)
		}
		if rec.Result().Header.Get("Allow") != "" || rec.Header().Get("Allow") != "" {
			return fmt.Sprintf("ServeHTTP: 404 with Allow header %q: %s", rec.Header().Get("Allow"), ctx)
		}
	}
	return ""
}

// checkIntercept: with InterceptAll(p) every request is resolved exactly as a request for p on the twin router without the option.
func checkIntercept(r, twin *rux.Router, c cfg, method, path string) string {
	p := c.tb.Opts.InterceptTo
	rt1, ps1, al1 := r.Match(method, path)
	rt2, ps2, al2 := twin.Match(method, p)
	if model.RouteIndex(rt1) != model.RouteIndex(rt2) || fmt.Sprint(ps1) != fmt.Sprint(ps2) ||
		strings.Join(sortedCopy(al1), ",") != strings.Join(sortedCopy(al2), ",") {
		return fmt.Sprintf("InterceptAll(%q): %s %q resolves to route %d %v %v, a request for %q on the twin without the option to route %d %v %v\n config: %s",
			p, method, path, model.RouteIndex(rt1), ps1, sortedCopy(al1), p, model.RouteIndex(rt2), ps2, sortedCopy(al2), c)
	}
	a, b := serve(r, method, path), serve(twin, method, p)
	if a.Code != b.Code || a.Body.String() != b.Body.String() || a.Header().Get("Allow") != b.Header().Get("Allow") {
		return fmt.Sprintf("InterceptAll(%q): %s %q answers %d %q, the twin answers %d %q for %q\n config: %s", p, method, path, a.Code, a.Body.String(), b.Code, b.Body.String(), p, c)
	}
	return ""
}

func decorate(t *rapid.T, p string) string {
	switch rapid.IntRange(0, 5).Draw(t, "decor") {
	case 0:
		return strings.TrimLeft(p, "/")
	case 1:
		return p + "/"
	case 2:
		return " " + p + " "
	case 3:
		return "/" + p
	}
	return p
}

func prop(t *rapid.T) {
	ev.Case()
	c := cfg{tb: &model.Table{}}
	o := &c.tb.Opts
	o.Strict = rapid.Bool().Draw(t, "strict")
	o.NotAllowed = rapid.IntRange(0, 3).Draw(t, "handle405") > 0
	o.Fallback = rapid.Bool().Draw(t, "fallback")
	if rapid.Bool().Draw(t, "caching") {
		o.Caching = true
		o.CacheCap = rapid.IntRange(0, 3).Draw(t, "cap")
	}
	o.Order, o.Via = model.GenOrder(t), model.GenVia(t)
	c.customNF = rapid.Bool().Draw(t, "customNF")
	c.customNA = rapid.Bool().Draw(t, "customNA")
	c.nGlobal = rapid.IntRange(0, 3).Draw(t, "nGlobalMw")
	tc := model.TableCfg{MaxRoutes: ev.Pick(6, 10), Gen: model.GenCfg{MaxSegs: 3, RichLits: false}, Fallback: true}
	c.tb.Routes = model.GenRoutes(t, tc, o.Strict)
	if len(c.tb.Routes) == 0 {
		t.Skip("empty table")
	}
	if model.LongPrefix(t, c.tb.Routes, 6) {
		ev.Class("table:all-routes-below-a-long-first-segment")
	}
	var twin *rux.Router
	if rapid.IntRange(0, 3).Draw(t, "intercept") == 0 {
		p, _, _, _, _ := model.GenProbePath(t, c.tb.Routes)
		p = decorate(t, p)
		if strings.TrimSpace(p) == "" || !model.Stable(p, o.Strict) {
			t.Skip("unusable intercept path")
		}
		plain := *o
		twin = build(c, plain)
		o.Intercept, o.InterceptTo = true, p
	}
	r := build(c, *o)
	np := rapid.IntRange(1, 8).Draw(t, "nprobes")
	type probe struct{ method, path string }
	var probed []probe
	defer func() {
		// lifecycle: a route for ANOTHER method of an existing pattern is registered after these requests were served
		// (an application that mounts a module late); every earlier request is then resolved again, against the
		// extended table - nothing remembered from before may stand in the way
		if t.Failed() || len(probed) == 0 || rapid.IntRange(0, 2).Draw(t, "lateRoute") != 0 {
			return
		}
		base := c.tb.Routes[rapid.IntRange(0, len(c.tb.Routes)-1).Draw(t, "lateBase")]
		var free []string
		for _, m := range model.Methods {
			taken := false // by any route with the same pattern text (no duplicate registrations)
			for _, d := range c.tb.Routes {
				if d.P.String() == base.P.String() && d.Allows(m) {
					taken = true
				}
			}
			if !taken {
				free = append(free, m)
			}
		}
		if len(free) == 0 || base.P.Raw != "" {
			return
		}
		d := model.RouteDef{P: base.P, Methods: []string{rapid.SampledFrom(free).Draw(t, "lateMethod")}, Idx: len(c.tb.Routes)}
		c.tb.Routes = append(c.tb.Routes, d)
		name := d.Name()
		for _, rr := range []*rux.Router{r, twin} {
			if rr != nil {
				model.RegisterOne(rr, d, d.P.String(), func(c *rux.Context) { c.WriteString(name) })
			}
		}
		ev.Class("route-for-another-method-added-after-requests")
		for _, q := range probed {
			ev.Eval()
			if msg := checkProbe(r, c, q.method, q.path); msg != "" {
				t.Fatalf("after route %s was added: %s", d, msg)
			}
		}
	}()
	for i := 0; i < np; i++ {
		path, kind, target, _, _ := model.GenProbePath(t, c.tb.Routes)
		method := rapid.SampledFrom(append(append([]string{}, model.Methods...), "PURGE")).Draw(t, "method")
		if target >= 0 && rapid.IntRange(0, 9).Draw(t, "ownMethod") < 3 {
			method = rapid.SampledFrom(c.tb.Routes[target].Methods).Draw(t, "method")
		}
		if !model.Stable(path, o.Strict) {
			ev.Class("skipped:unstable-path")
			continue
		}
		ev.Eval()
		res := c.tb.Resolve(method, path)
		ev.Class("probe:" + kind)
		ev.Class("result:" + res.Kind.String())
		if o.Intercept {
			ev.Class("intercept")
		}
		enabled := 0
		if method == "HEAD" {
			enabled++
		}
		if o.Fallback {
			enabled++
		}
		if o.NotAllowed {
			enabled++
		}
		dyn405 := false
		if res.Kind == model.NotAllowed {
			for _, m := range res.Allowed {
				if w := c.tb.Resolve(m, path); w.Route >= 0 && !c.tb.Routes[w.Route].P.IsStatic() {
					dyn405 = true
				}
			}
			ev.Class(fmt.Sprintf("405:allowed=%d", len(res.Allowed)))
		}
		if (res.Kind != model.Direct && enabled >= 2) || len(res.Allowed) >= 2 || dyn405 || o.Intercept {
			ev.NonTrivial(c.String()+"|"+method+"|"+path, func() string {
				return fmt.Sprintf("%s %q -> %s route=%d allowed=%v | %s", method, path, res.Kind, res.Route, res.Allowed, c)
			})
		}
		if msg := checkProbe(r, c, method, path); msg != "" {
			t.Fatalf("%s", msg)
		}
		probed = append(probed, probe{method, path})
		if twin != nil {
			if msg := checkIntercept(r, twin, c, method, path); msg != "" {
				t.Fatalf("%s", msg)
			}
		}
		if rapid.IntRange(0, 2).Draw(t, "overlap") == 0 {
			// the same request again, this time with another request resolved in the middle of it
			p2, _, _, _, _ := model.GenProbePath(t, c.tb.Routes)
			m2 := rapid.SampledFrom(append(append([]string{}, model.Methods...), "PURGE")).Draw(t, "nestedMethod")
			plain := serve(r, method, path)
			rec := httptest.NewRecorder()
			r.ServeHTTP(rec, &http.Request{Method: method, URL: &url.URL{Path: path}, Header: http.Header{"X-Nest-Method": {m2}, "X-Nest-Path": {p2}}, Proto: "HTTP/1.1"})
			ev.Eval()
			if rec.Code != plain.Code || rec.Body.String() != plain.Body.String() || rec.Header().Get("Allow") != plain.Header().Get("Allow") {
				t.Fatalf("%s %q answers %d %q Allow=%q when %s %q is resolved in the middle of it, and %d %q Allow=%q alone\n config: %s",
					method, path, rec.Code, rec.Body.String(), rec.Header().Get("Allow"), m2, p2, plain.Code, plain.Body.String(), plain.Header().Get("Allow"), c)
			}
			ev.Class("probe:with-another-resolution-in-the-middle:" + res.Kind.String() + "/" + c.tb.Resolve(m2, p2).Kind.String())
		}
		if res.Route >= 0 && rapid.IntRange(0, 2).Draw(t, "redirect") == 0 {
			// the route's handler redirects internally (it rewrites the request and calls HandleContext with its own
			// context): the answer is the one a request for the new target gets
			p2, _, _, _, _ := model.GenProbePath(t, c.tb.Routes)
			m2 := rapid.SampledFrom(append(append([]string{}, model.Methods...), "PURGE")).Draw(t, "redirectMethod")
			if model.Stable(p2, o.Strict) {
				plain := serve(r, m2, p2)
				rec := httptest.NewRecorder()
				r.ServeHTTP(rec, &http.Request{Method: method, URL: &url.URL{Path: path}, Header: http.Header{"X-Redirect-Method": {m2}, "X-Redirect-Path": {p2}}, Proto: "HTTP/1.1"})
				ev.Eval()
				if rec.Code != plain.Code || rec.Body.String() != plain.Body.String() || rec.Result().Header.Get("Allow") != plain.Result().Header.Get("Allow") {
					t.Fatalf("%s %q, whose handler redirects internally (HandleContext) to %s %q, answers %d %q Allow=%q; a request for %s %q answers %d %q Allow=%q\n config: %s",
						method, path, m2, p2, rec.Code, rec.Body.String(), rec.Result().Header.Get("Allow"), m2, p2, plain.Code, plain.Body.String(), plain.Result().Header.Get("Allow"), c)
				}
				ev.Class("probe:internal-redirect-from-a-route-handler-to:" + c.tb.Resolve(m2, p2).Kind.String())
			}
		}
	}
}

func TestProp(t *testing.T) { rapid.Check(t, prop) }
