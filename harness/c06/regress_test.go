package c06

import (
	"testing"

	"verifharness/model"
)

func TestRegress(t *testing.T) {
	cases := []struct {
		name   string
		c      cfg
		probes [][2]string
	}{
		{"D15-intercept-path-not-normalised", cfg{tb: model.T(model.Options{Intercept: true, InterceptTo: "coming"}, "GET /coming", "GET /a")},
			[][2]string{{"GET", "/a"}, {"GET", "/zz"}, {"POST", "/a"}}},
		{"D15-intercept-trailing-slash", cfg{tb: model.T(model.Options{Intercept: true, InterceptTo: "/u/5/", NotAllowed: true}, "GET /u/{id}", "POST /a")},
			[][2]string{{"GET", "/a"}, {"POST", "/a"}, {"HEAD", "/"}}},
		{"order-head-before-fallback-before-405", cfg{tb: model.T(model.Options{Fallback: true, NotAllowed: true}, "GET /a", "POST /a", "HEAD,PUT /*", "DELETE /b/{x}")},
			[][2]string{{"HEAD", "/a"}, {"HEAD", "/zz"}, {"PUT", "/a"}, {"PATCH", "/a"}, {"OPTIONS", "/a"}, {"GET", "/b/1"}, {"PATCH", "/nope"}, {"PURGE", "/a"}}},
	}
	for _, c := range cases {
		t.Run(c.name, func(t *testing.T) {
			r := build(c.c, c.c.tb.Opts)
			for _, p := range c.probes {
				if msg := checkProbe(r, c.c, p[0], p[1]); msg != "" {
					t.Errorf("%s", msg)
				}
			}
			if c.c.tb.Opts.Intercept {
				plain := c.c.tb.Opts
				plain.Intercept = false
				twin := build(c.c, plain)
				for _, p := range c.probes {
					if msg := checkIntercept(r, twin, c.c, p[0], p[1]); msg != "" {
						t.Errorf("%s", msg)
					}
				}
			}
		})
	}
}
