package c06

import (
	"github.com/gookit/rux"
	"testing"

	"verifharness/model"
)

func TestRegress(t *testing.T) {
	cases := []struct {
		name   string
		c      cfg
		probes [][2]string
	}{
		{"D15-intercept-path-not-normalised", cfg{tb: model.T(model.Options{Intercept: true, InterceptTo: "coming"}, "GET /coming", "GET /a")},
			[][2]string{{"GET", "/a"}, {"GET", "/zz"}, {"POST", "/a"}}},
		{"D15-intercept-trailing-slash", cfg{tb: model.T(model.Options{Intercept: true, InterceptTo: "/u/5/", NotAllowed: true}, "GET /u/{id}", "POST /a")},
			[][2]string{{"GET", "/a"}, {"POST", "/a"}, {"HEAD", "/"}}},
		{"order-head-before-fallback-before-405", cfg{tb: model.T(model.Options{Fallback: true, NotAllowed: true}, "GET /a", "POST /a", "HEAD,PUT /*", "DELETE /b/{x}")},
			[][2]string{{"HEAD", "/a"}, {"HEAD", "/zz"}, {"PUT", "/a"}, {"PATCH", "/a"}, {"OPTIONS", "/a"}, {"GET", "/b/1"}, {"PATCH", "/nope"}, {"PURGE", "/a"}}},
	}
	for _, c := range cases {
		t.Run(c.name, func(t *testing.T) {
			r := build(c.c, c.c.tb.Opts)
			for _, p := range c.probes {
				if msg := checkProbe(r, c.c, p[0], p[1]); msg != "" {
					t.Errorf("%s", msg)
				}
			}
			if c.c.tb.Opts.Intercept {
				plain := c.c.tb.Opts
				plain.Intercept = false
				twin := build(c.c, plain)
				for _, p := range c.probes {
					if msg := checkIntercept(r, twin, c.c, p[0], p[1]); msg != "" {
						t.Errorf("%s", msg)
					}
				}
			}
		})
	}
}

// D24: the route cache kept its entries when a route was registered after requests had been served: a path cached
// from a lower-priority pattern went on being answered by it although the new route wins on the same router
// without caching.
func TestRegressRouteAddedAfterCachedRequest(t *testing.T) {
	for _, caching := range []bool{false, true} {
		var opts []func(*rux.Router)
		if caching {
			opts = append(opts, rux.CachingWithNum(1))
		}
		r := rux.New(opts...)
		r.Any("/[a/{id}]", func(c *rux.Context) { c.WriteString("old") })
		if got := serve(r, "POST", "/a/x").Body.String(); got != "old" {
			t.Fatalf("caching=%v: before the late route: %q", caching, got)
		}
		r.POST("/a/{id}", func(c *rux.Context) { c.WriteString("new") })
		if got := serve(r, "POST", "/a/x").Body.String(); got != "new" {
			t.Errorf("caching=%v: POST /a/x after POST /a/{id} was added is answered by %q, the pattern with a literal first segment wins", caching, got)
		}
	}
}
