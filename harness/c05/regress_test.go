package c05

import (
	"strings"
	"testing"

	"verifharness/chain"
)

// flat builds a chain of n handlers that all call Next() `nexts` times and observe IsAborted around it.
func flat(w *chain.World, n, nexts int) (*chain.Program, []*chain.Script) {
	scripts := make([]*chain.Script, n)
	for i := range scripts {
		var ops []chain.Op
		for k := 0; k < nexts; k++ {
			ops = append(ops, chain.Op{K: chain.OpNext})
		}
		scripts[i] = w.NewScript("h", ops...)
	}
	return &chain.Program{Body: []*chain.Stmt{{Kind: "route", Path: "/x", Methods: []string{"GET"}, Main: scripts[n-1], Variadic: scripts[:n-1]}}}, scripts
}

func runFlat(n, nexts int) (trace string, escaped any) {
	w := chain.NewWorld()
	prog, _ := flat(w, n, nexts)
	r := prog.Apply(w)
	st := w.NewRequest("GET", "/x")
	out := st.Serve(r)
	return out.Trace, out.Escaped
}

// D14: nobody aborts, yet IsAborted() became true / the cursor overflowed.
func TestRegress(t *testing.T) {
	for _, c := range [][2]int{{40, 1}, {32, 1}, {60, 2}, {62, 1}, {62, 2}, {5, 2}, {1, 2}} {
		trace, esc := runFlat(c[0], c[1])
		if esc != nil {
			t.Errorf("D14: chain of %d handlers calling Next() %d times: panic %v", c[0], c[1], esc)
			continue
		}
		if strings.Contains(trace, "aborted=true") {
			t.Errorf("D14: chain of %d handlers calling Next() %d times, nobody aborts, IsAborted() reported true", c[0], c[1])
		}
		if n := strings.Count(trace, "enter "); n != c[0] {
			t.Errorf("D14: chain of %d handlers: %d started", c[0], n)
		}
	}
}

// K1 (was a known finding, repaired by f08c905): with exactly 63 handlers the cursor of a completed chain equals the
// old abort sentinel; IsAborted() must stay false when nobody aborts.
func TestRegressK1(t *testing.T) {
	for _, nexts := range []int{0, 1, 2} {
		trace, esc := runFlat(63, nexts)
		if esc != nil {
			t.Fatalf("chain of 63 handlers panicked: %v", esc)
		}
		if n := strings.Count(trace, "enter "); n != 63 {
			t.Fatalf("chain of 63 handlers: %d started", n)
		}
		if strings.Contains(trace, "aborted=true") {
			t.Errorf("chain of exactly 63 handlers calling Next() %d times, nobody aborts: IsAborted() reported true", nexts)
		}
	}
}
