// C05 — Abort stops every later handler and only later handlers.
package c05

import (
	"fmt"
	"net/http"
	"net/http/httptest"
	"strings"
	"testing"

	"github.com/gookit/rux"
	"pgregory.net/rapid"

	"verifharness/chain"
	"verifharness/ev"
	"verifharness/model"
)

func TestMain(m *testing.M) { ev.Main(m) }

func isAbort(o chain.Op) bool {
	return o.K == chain.OpAbort || o.K == chain.OpAbortThen || o.K == chain.OpAbortStatus || o.K == chain.OpAbortStatusMsg
}

// semantic predicates on the real trace, independent of the chain interpreter
func checkTrace(trace string) error {
	aborted := false
	entered := map[string]bool{}
	left := map[string]bool{}
	for _, l := range strings.Split(trace, "\n") {
		f := strings.Fields(l)
		if len(f) < 2 {
			continue
		}
		switch {
		case f[0] == "enter":
			if aborted {
				return fmt.Errorf("handler %s started after an abort", f[1])
			}
			if entered[f[1]] {
				return fmt.Errorf("handler %s started twice", f[1])
			}
			entered[f[1]] = true
		case f[0] == "leave":
			left[f[1]] = true
		case len(f) >= 2 && f[1] == "after-abort":
			aborted = true
			if strings.Contains(l, "aborted=false") {
				return fmt.Errorf("IsAborted() false right after the abort: %s", l)
			}
		case len(f) >= 2 && f[1] == "before-abort":
			if !aborted && strings.Contains(l, "aborted=true") {
				return fmt.Errorf("IsAborted() true before anybody aborted: %s", l)
			}
		}
		if (f[0] == "enter" || f[0] == "leave") && !aborted && strings.Contains(l, "aborted=true") {
			return fmt.Errorf("IsAborted() true before anybody aborted: %s", l)
		}
		if f[0] == "leave" && aborted && strings.Contains(l, "aborted=false") {
			return fmt.Errorf("IsAborted() false after the abort: %s", l)
		}
	}
	for h := range entered {
		if !left[h] {
			return fmt.Errorf("handler %s was suspended and never resumed", h)
		}
	}
	return nil
}

func prop(t *rapid.T) {
	ev.Case()
	w := chain.NewWorld()
	opts := model.Options{NotAllowed: rapid.Bool().Draw(t, "handle405")}
	cfg := chain.ProgCfg{
		MaxDepth: rapid.IntRange(0, 3).Draw(t, "maxDepth"), MaxMw: 3, MaxStmts: 4,
		LongChains: rapid.IntRange(0, ev.Pick(5, 2)).Draw(t, "longChains") == 0,
		Fallbacks:  true, Dynamic: false,
		Script: chain.ScriptCfg{Writes: true, Data: true, Copies: true, Abort: rapid.SampledFrom([]int{2, 4, 8, 30}).Draw(t, "abortRate")},
	}
	prog := chain.GenProgram(t, w, opts, cfg)
	pm := prog.Model()
	if len(pm.Routes) == 0 {
		t.Skip("no routes")
	}
	r := prog.Apply(w)
	for _, q := range chain.Requests(t, pm, 1) {
		msg, info := chain.CheckRequest(w, r, pm, q[0], q[1])
		if info.Skipped {
			ev.Class("skipped:chain-longer-than-63")
			continue
		}
		ev.Eval()
		// which handler aborts first (by chain position), in its pre or post part, followed by Next?
		pos, where, then := -1, "", false
		for i, s := range info.Chain {
			seenNext := false
			for j, o := range s.Ops {
				if o.K == chain.OpNext {
					seenNext = true
				}
				if isAbort(o) && pos < 0 {
					pos = i
					where = "pre"
					if seenNext {
						where = "post"
					}
					then = j+1 < len(s.Ops) && s.Ops[j+1].K == chain.OpNext
				}
			}
		}
		n := len(info.Chain)
		if n == 63 {
			ev.Class("chain:exactly-63-handlers")
		}
		if pos >= 0 {
			ev.Class("abort:" + where)
			if then {
				ev.Class("abort:followed-by-Next")
			}
			if pos > 0 || where == "post" || then || n >= 30 {
				if n >= 30 {
					ev.Class("abort:chain>=30")
				}
				ev.NonTrivial(prog.Scripts()+q[0]+q[1], func() string {
					return fmt.Sprintf("%s %q chain of %d, first aborting handler at position %d (%s part, Next afterwards=%v)\n%s", q[0], q[1], n, pos, where, then, prog.Scripts())
				})
			}
		} else {
			ev.Class("abort:none-in-chain")
		}
		if msg != "" {
			t.Fatalf("%s\nprogram:\n%sscripts:\n%s", msg, prog, prog.Scripts())
		}
	}
}

func TestProp(t *testing.T) { rapid.Check(t, prop) }

// propDirect: one abort at a chosen position of a flat chain of chosen length; the semantic predicates are checked on
// the real trace without the interpreter (second, independent oracle), and AbortWithStatus determines the status.
func propDirect(t *rapid.T) {
	ev.Case()
	w := chain.NewWorld()
	n := rapid.IntRange(1, 63).Draw(t, "chainLen") // 63 handlers = 62 middleware (the registration limit) + main
	if rapid.IntRange(0, 3).Draw(t, "short") == 0 {
		n = rapid.IntRange(1, 6).Draw(t, "chainLenShort")
	}
	at := rapid.IntRange(0, n-1).Draw(t, "abortAt")
	post := rapid.Bool().Draw(t, "inPostPart")
	then := rapid.Bool().Draw(t, "nextAfterAbort")
	ab := chain.Op{K: chain.OpAbort}
	code := 0
	switch rapid.IntRange(0, 3).Draw(t, "abortKind") {
	case 1:
		ab = chain.Op{K: chain.OpAbortThen}
	case 2:
		code = rapid.SampledFrom([]int{400, 401, 403, 404, 500, 503}).Draw(t, "code")
		ab = chain.Op{K: chain.OpAbortStatus, N: code}
	case 3:
		code = rapid.SampledFrom([]int{400, 401, 403, 404, 500, 503}).Draw(t, "code")
		ab = chain.Op{K: chain.OpAbortStatusMsg, N: code, S: "stop"}
	}
	scripts := make([]*chain.Script, n)
	for i := range scripts {
		callsNext := rapid.IntRange(0, 4).Draw(t, "callsNext") > 0
		var ops []chain.Op
		if callsNext {
			ops = append(ops, chain.Op{K: chain.OpNext})
		}
		if i == at {
			ins := []chain.Op{ab}
			if then {
				ins = append(ins, chain.Op{K: chain.OpNext})
			}
			if post {
				ops = append(ops, ins...)
			} else {
				ops = append(ins, ops...)
			}
		}
		scripts[i] = w.NewScript("h", ops...)
	}
	nglobal := rapid.IntRange(0, min(3, n-1)).Draw(t, "nglobal")
	prog := &chain.Program{Body: []*chain.Stmt{
		{Kind: "use", Hs: scripts[:nglobal]},
		{Kind: "route", Path: "/x", Methods: []string{"GET"}, Main: scripts[n-1], Variadic: scripts[nglobal : n-1]},
	}}
	if nglobal == 0 {
		prog.Body = prog.Body[1:]
	}
	pm := prog.Model()
	r := prog.Apply(w)
	ev.Eval()
	st := w.NewRequest("GET", "/x")
	out := st.Serve(r)
	ctx := fmt.Sprintf("chain of %d, abort %s at position %d (post=%v, Next afterwards=%v)\ntrace:\n%s", n, ab, at, post, then, out.Trace)
	if out.Escaped != nil {
		t.Fatalf("panic %v: %s", out.Escaped, ctx)
	}
	reached := strings.Contains(out.Trace, "after-abort")
	if err := checkTrace(out.Trace); err != nil {
		t.Fatalf("%v: %s", err, ctx)
	}
	if reached && code != 0 {
		// nothing was committed before the abort in these chains, so the abort code is the response status
		if got := st.Rec.HeaderCommits(); len(got) != 1 || got[0] != code {
			t.Fatalf("AbortWithStatus(%d): WriteHeader calls %v: %s", code, got, ctx)
		}
	}
	// and the interpreter agrees
	chainS, ps, _ := pm.Expect("GET", "/x")
	want, _ := chain.ModelDispatch(chainS, pm.Hooks, chain.NewRec(), st.Req, ps, false)
	if d := chain.Diff(out, want); d != "" {
		t.Fatalf("%s\n%s", d, ctx)
	}
	ev.Class(fmt.Sprintf("direct:abort-reached=%v", reached))
	if reached && (at > 0 || post || then || n >= 30) {
		ev.NonTrivial(fmt.Sprint(n, at, post, then, ab, prog.Scripts()), func() string { return ctx })
	}
}

func TestPropDirect(t *testing.T) { rapid.Check(t, propDirect) }

var _ = rux.GET

// propForwardAbort: a middleware of /x forwards the context to /y (Router.HandleContext) and a handler of the /y chain
// aborts. The abort concerns the request: no handler of the /x chain that comes after the forwarding one may start,
// the handlers suspended before it resume, IsAborted() is true afterwards.
func propForwardAbort(t *rapid.T) {
	ev.Case()
	w := chain.NewWorld()
	next := chain.Op{K: chain.OpNext}
	nBefore := rapid.IntRange(0, 2).Draw(t, "nBefore")
	nAfter := rapid.IntRange(1, 3).Draw(t, "nAfter")
	var xs []*chain.Script
	for i := 0; i < nBefore; i++ {
		xs = append(xs, w.NewScript("before", next))
	}
	fwd := w.NewScript("forwarder", chain.Op{K: chain.OpForward, S2: "/y"}, next)
	if rapid.IntRange(0, 2).Draw(t, "abortBeforeForward") == 0 {
		// the forwarder aborts its own chain first: the forwarded dispatch is a new chain that starts un-aborted
		// (IsAborted() is false before anyone in it aborts)
		fwd.Ops = append([]chain.Op{{K: chain.OpAbort}}, fwd.Ops...)
		ev.Class("forwarder-aborted-before-forwarding")
	}
	xs = append(xs, fwd)
	for i := 0; i < nAfter; i++ {
		xs = append(xs, w.NewScript("after", next))
	}
	ab := chain.Op{K: chain.OpAbort}
	switch rapid.IntRange(0, 3).Draw(t, "abortKind") {
	case 1:
		ab = chain.Op{K: chain.OpAbortThen}
	case 2:
		ab = chain.Op{K: chain.OpAbortStatus, N: 403}
	case 3:
		ab = chain.Op{K: chain.OpAbortStatusMsg, N: 401, S: "no"}
	}
	nInner := rapid.IntRange(1, 3).Draw(t, "nInner")
	at := rapid.IntRange(0, nInner-1).Draw(t, "abortAt")
	var ys []*chain.Script
	for i := 0; i < nInner; i++ {
		ops := []chain.Op{next}
		if i == at {
			if rapid.Bool().Draw(t, "abortAfterNext") {
				ops = []chain.Op{next, ab}
			} else {
				ops = []chain.Op{ab, next}
			}
		}
		ys = append(ys, w.NewScript("y", ops...))
	}
	nGlobal := rapid.IntRange(0, 1).Draw(t, "nGlobal")
	var body []*chain.Stmt
	for i := 0; i < nGlobal; i++ {
		body = append(body, &chain.Stmt{Kind: "use", Hs: []*chain.Script{w.NewScript("global", next)}})
	}
	body = append(body,
		&chain.Stmt{Kind: "route", Path: "/x", Methods: []string{"GET"}, Main: xs[len(xs)-1], Variadic: xs[:len(xs)-1]},
		&chain.Stmt{Kind: "route", Path: "/y", Methods: []string{"GET"}, Main: ys[len(ys)-1], Variadic: ys[:len(ys)-1]})
	prog := &chain.Program{Body: body}
	pm := prog.Model()
	pm.EnableForward()
	r := prog.Apply(w)
	ev.Eval()
	st := w.NewRequest("GET", "/x")
	out := st.Serve(r)
	ctx := fmt.Sprintf("scripts:\n%strace:\n%s", prog.Scripts(), out.Trace)
	if out.Escaped != nil {
		t.Fatalf("panic %v\n%s", out.Escaped, ctx)
	}
	if strings.Contains(out.Trace, "enter after") {
		t.Fatalf("a handler of the forwarding chain started although the forwarded chain aborted the request\n%s", ctx)
	}
	// (global middleware legitimately runs once more for the forwarded dispatch, so the "never twice" predicate of
	// checkTrace does not apply here)
	if !strings.Contains(out.Trace, "after-abort aborted=true") || strings.Contains(out.Trace, "leave "+fwd.Name+" aborted=false") {
		t.Fatalf("IsAborted() is not true after the abort in the forwarded chain\n%s", ctx)
	}
	chainS, ps, _ := pm.Expect("GET", "/x")
	want, _ := chain.ModelDispatch(chainS, pm.Hooks, chain.NewRec(), st.Req, ps, false)
	if d := chain.Diff(out, want); d != "" {
		t.Fatalf("%s\n%s", d, ctx)
	}
	ev.Class("abort-inside-a-forwarded-chain")
	ev.NonTrivial("fwd"+prog.Scripts(), func() string { return ctx })
}

func TestPropForwardAbort(t *testing.T) { rapid.Check(t, propForwardAbort) }

// propAbortStaysInItsRequest: an abort belongs to the request whose handler called it.  Histories over {a request
// that panics (OnPanic hook installed), a request that is refused by an aborting middleware, a plain request, a request
// whose middleware serves a NESTED request - the refused one - through the same router before it calls Next()}.
// Oracle: the refused request never reaches its main handler; every other request is un-aborted when it starts, is
// still un-aborted after the nested request was refused, and runs its main handler exactly once.
func propAbortStaysInItsRequest(t *rapid.T) {
	ev.Case()
	r := rux.New()
	if rapid.IntRange(0, 3).Draw(t, "hook") > 0 {
		r.OnPanic = func(c *rux.Context) { c.SetStatus(500) }
	}
	var log []string
	note := func(s string) { log = append(log, s) }
	abortKind := rapid.IntRange(0, 2).Draw(t, "abortKind")
	r.GET("/boom", func(c *rux.Context) { panic("boom") })
	r.GET("/deny", func(c *rux.Context) { note("deny-main") }, func(c *rux.Context) {
		switch abortKind {
		case 0:
			c.Abort()
		case 1:
			c.AbortThen().SetStatus(403)
		default:
			c.AbortWithStatus(403)
		}
		note(fmt.Sprintf("deny-gate aborted=%v", c.IsAborted()))
	})
	r.GET("/plain", func(c *rux.Context) {
		note(fmt.Sprintf("plain-main aborted=%v", c.IsAborted()))
		c.WriteString("plain")
	})
	// an internal redirect: the handler hands its own context to the router again, for another path
	r.GET("/fwd", func(c *rux.Context) {
		note("fwd")
		c.Req.URL.Path = "/plain"
		c.Router().HandleContext(c)
	})
	r.GET("/outer", func(c *rux.Context) {
		note(fmt.Sprintf("outer-main aborted=%v", c.IsAborted()))
		c.WriteString("outer")
	},
		func(c *rux.Context) {
			note(fmt.Sprintf("outer-mw-enter aborted=%v", c.IsAborted()))
			r.ServeHTTP(httptest.NewRecorder(), httptest.NewRequest("GET", "/deny", nil))
			note(fmt.Sprintf("outer-mw-after-nested aborted=%v", c.IsAborted()))
			c.Next()
			note(fmt.Sprintf("outer-mw-leave aborted=%v", c.IsAborted()))
		})
	want := map[string]string{
		"/deny":  "deny-gate aborted=true",
		"/plain": "plain-main aborted=false",
		"/fwd":   "fwd|plain-main aborted=false",
		"/outer": "outer-mw-enter aborted=false|deny-gate aborted=true|outer-mw-after-nested aborted=false|outer-main aborted=false|outer-mw-leave aborted=false",
	}
	hist := rapid.SliceOfN(rapid.SampledFrom([]string{"/boom", "/deny", "/plain", "/fwd", "/outer", "/outer"}), 2, 8).Draw(t, "history")
	sawPanic := false
	for i, p := range hist {
		log = nil
		rec := httptest.NewRecorder()
		func() {
			defer func() { _ = recover() }() // without a hook the panic leaves ServeHTTP, as documented
			r.ServeHTTP(rec, httptest.NewRequest("GET", p, nil))
		}()
		ev.Eval()
		if p == "/boom" {
			sawPanic = true
			continue
		}
		if got := strings.Join(log, "|"); got != want[p] {
			t.Fatalf("request %d of %v: GET %s ran as\n   %s\nexpected\n   %s", i, hist, p, got, want[p])
		}
		if p == "/outer" && rec.Body.String() != "outer" {
			t.Fatalf("request %d of %v: GET /outer answered %d %q", i, hist, rec.Code, rec.Body.String())
		}
		if p == "/fwd" {
			sawPanic = true // (a forwarded request is the other history that can leave the pool in a bad state)
		}
		if p == "/outer" && sawPanic {
			ev.Class("nested-refused-request-after-a-panic")
			ev.NonTrivial(fmt.Sprint(hist[:i+1], abortKind), func() string { return fmt.Sprintf("history %v abortKind=%d", hist[:i+1], abortKind) })
		}
	}
}

func TestPropAbortStaysInItsRequest(t *testing.T) { rapid.Check(t, propAbortStaysInItsRequest) }

// propLimitThenAbort: "every chain shape within the documented handler limit".  A chain that registration accepts IS
// within the limit, however it was put together - one Use call, several, group plus route.  Whatever is accepted must
// obey Abort; what would exceed the limit must be refused (C13) - a chain that is accepted and then ignores Abort
// breaks this property.
func propLimitThenAbort(t *rapid.T) {
	ev.Case()
	r := rux.New()
	var ran []int
	mk := func(i int, abort bool) rux.HandlerFunc {
		return func(c *rux.Context) {
			ran = append(ran, i)
			if abort {
				c.AbortWithStatus(403)
				return
			}
			c.Next()
		}
	}
	parts := rapid.SliceOfN(rapid.IntRange(1, 45), 1, 4).Draw(t, "useCalls")
	abortAt := rapid.IntRange(0, 2).Draw(t, "abortAt")
	accepted := true
	total := 0
	func() {
		defer func() {
			if recover() != nil {
				accepted = false
			}
		}()
		viaGroup := rapid.Bool().Draw(t, "firstPartAsGroupMiddleware")
		add := func() {
			rt := r.GET("/x", func(c *rux.Context) { ran = append(ran, -1); c.WriteString("main") })
			for k, n := range parts {
				if viaGroup && k == 0 {
					continue
				}
				hs := make([]rux.HandlerFunc, n)
				for i := range hs {
					hs[i] = mk(total, total == abortAt)
					total++
				}
				rt.Use(hs...)
			}
		}
		if viaGroup {
			hs := make([]rux.HandlerFunc, parts[0])
			for i := range hs {
				hs[i] = mk(total, total == abortAt)
				total++
			}
			r.Group("", add, hs...)
		} else {
			add()
		}
	}()
	ev.Eval()
	if !accepted {
		ev.Class("registration-refused(over the limit)")
		return
	}
	rec := httptest.NewRecorder()
	r.ServeHTTP(rec, httptest.NewRequest("GET", "/x", nil))
	if total <= abortAt {
		return
	}
	for _, i := range ran {
		if i > abortAt || i == -1 {
			t.Fatalf("chain of %d middleware (Use calls %v) was accepted; handler #%d aborts, yet handler %d started afterwards (ran: %v)", total, parts, abortAt, i, ran)
		}
	}
	if rec.Code != 403 {
		t.Fatalf("chain of %d middleware (Use calls %v), abort with 403 in handler #%d: status %d", total, parts, abortAt, rec.Code)
	}
	ev.Class(fmt.Sprintf("accepted-chain-obeys-abort:total>=40=%v", total >= 40))
	if total >= 40 {
		ev.NonTrivial(fmt.Sprint(parts, abortAt), func() string { return fmt.Sprintf("Use calls %v, abort in #%d", parts, abortAt) })
	}
}

func TestPropLimitThenAbort(t *testing.T) { rapid.Check(t, propLimitThenAbort) }

// propAbortStatusThroughWrapper: a middleware has put its own buffering http.ResponseWriter into c.Resp (compression,
// caching, response rewriting do that) and replays what it captured when the chain is over.  AbortWithStatus answers
// through c.Resp like every helper: the status it sets is the status the client gets, and nothing after it runs.
type captureWriter struct {
	http.ResponseWriter
	status int
	body   []byte
}

func (w *captureWriter) WriteHeader(code int) {
	if w.status == 0 {
		w.status = code
	}
}
func (w *captureWriter) Write(b []byte) (int, error) {
	if w.status == 0 {
		w.status = 200
	}
	w.body = append(w.body, b...)
	return len(b), nil
}

func propAbortStatusThroughWrapper(t *rapid.T) {
	ev.Case()
	r := rux.New()
	var trace []string
	r.Use(func(c *rux.Context) {
		cw := &captureWriter{ResponseWriter: c.Resp}
		c.Resp = cw
		c.Next()
		c.Resp = cw.ResponseWriter
		if cw.status == 0 {
			cw.status = 200
		}
		c.Resp.WriteHeader(cw.status)
		_, _ = c.Resp.Write(cw.body)
	})
	n := rapid.IntRange(1, 4).Draw(t, "middleware")
	at := rapid.IntRange(0, n-1).Draw(t, "abortingPosition")
	code := rapid.SampledFrom([]int{401, 403, 404, 429, 503}).Draw(t, "status")
	withMsg := rapid.Bool().Draw(t, "withMessage")
	var mws []rux.HandlerFunc
	for i := 0; i < n; i++ {
		i := i
		mws = append(mws, func(c *rux.Context) {
			trace = append(trace, fmt.Sprintf("mw%d", i))
			if i == at {
				if withMsg {
					c.AbortWithStatus(code, "denied")
				} else {
					c.AbortWithStatus(code)
				}
			}
			c.Next()
		})
	}
	r.GET("/x", func(c *rux.Context) { trace = append(trace, "main"); c.WriteString("secret") }, mws...)
	rec := httptest.NewRecorder()
	r.ServeHTTP(rec, httptest.NewRequest("GET", "/x", nil))
	ev.Eval()
	ctx := fmt.Sprintf("%d middleware, AbortWithStatus(%d, message: %v) in mw%d, a buffering writer in c.Resp: ran %v, answered %d %q", n, code, withMsg, at, trace, rec.Code, rec.Body.String())
	if len(trace) != at+1 {
		t.Fatalf("handlers after the aborting one ran: %s", ctx)
	}
	if rec.Code != code || strings.Contains(rec.Body.String(), "secret") {
		t.Fatalf("the client does not get the abort status: %s", ctx)
	}
	// the aborting handler mounted as a plain http.Handler (HandlerFunc.ServeHTTP in an http.ServeMux): the status it
	// aborts with reaches the client there too
	mux := http.NewServeMux()
	mux.Handle("/x", rux.HandlerFunc(mws[at]))
	rec2 := httptest.NewRecorder()
	mux.ServeHTTP(rec2, httptest.NewRequest("GET", "/x", nil))
	if rec2.Code != code {
		t.Fatalf("the aborting handler served as a plain http.Handler answers %d, AbortWithStatus(%d, message: %v)", rec2.Code, code, withMsg)
	}
	ev.Class(fmt.Sprintf("abort-status-through-a-buffering-writer:message=%v", withMsg))
	ev.NonTrivial(fmt.Sprint(n, at, code, withMsg), func() string { return ctx })
}

func TestPropAbortStatusThroughWrapper(t *testing.T) { rapid.Check(t, propAbortStatusThroughWrapper) }
