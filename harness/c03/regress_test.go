package c03

import (
	"testing"

	"verifharness/chain"
	"verifharness/model"
)

// D8: global middleware added by three separate Use calls (spare capacity), two routes; request 0 parks inside the
// last global middleware while request 1 is dispatched.
func TestRegress(t *testing.T) {
	w := chain.NewWorld()
	y, n := chain.Op{K: chain.OpYield}, chain.Op{K: chain.OpNext}
	mw := func() *chain.Script { return w.NewScript("u", y, n, y) }
	for _, opts := range []model.Options{{}, {NotAllowed: true}, {Caching: true, CacheCap: 1}} {
		prog := &chain.Program{Opts: opts, Body: []*chain.Stmt{
			{Kind: "use", Hs: []*chain.Script{mw()}},
			{Kind: "use", Hs: []*chain.Script{mw()}},
			{Kind: "use", Hs: []*chain.Script{mw()}},
			{Kind: "route", Path: "/a", Methods: []string{"GET"}, Main: w.NewScript("ha", y), Variadic: []*chain.Script{mw()}},
			{Kind: "route", Path: "/b/{id}", Methods: []string{"GET"}, Main: w.NewScript("hb", y), Later: [][]*chain.Script{{mw()}, {mw()}}},
		}}
		pm := prog.Model()
		for _, reqs := range [][][2]string{
			{{"GET", "/a"}, {"GET", "/b/1"}},
			{{"GET", "/b/1"}, {"GET", "/a"}, {"GET", "/b/2"}},
			{{"GET", "/a"}, {"GET", "/zz"}, {"POST", "/a"}},
			{{"GET", "/zz"}, {"GET", "/a"}},
		} {
			// round robin: every request advances one boundary in turn
			turn := 0
			msg, _, _, _ := execSchedule(prog, pm, reqs, func(n int) int { turn++; return turn % n })
			if msg != "" {
				t.Errorf("options %s: %s", opts, msg)
			}
			// request 0 runs to its third boundary, then the others run to completion
			step := 0
			msg, _, _, _ = execSchedule(prog, pm, reqs, func(n int) int {
				step++
				if step <= 3 || n == 1 {
					return 0
				}
				return 1
			})
			if msg != "" {
				t.Errorf("options %s: %s", opts, msg)
			}
		}
	}
}

// D18: the errors held by a context copy (c.Copy() kept for a background job) must not be overwritten by a later
// request that gets the pooled context.
func TestRegressCopyKeepsErrors(t *testing.T) {
	w := chain.NewWorld()
	prog := &chain.Program{Body: []*chain.Stmt{
		{Kind: "route", Path: "/a", Methods: []string{"GET"}, Main: w.NewScript("ha", chain.Op{K: chain.OpAddError}, chain.Op{K: chain.OpSet, S: "k1", S2: "a"}, chain.Op{K: chain.OpCopy})},
		{Kind: "route", Path: "/b", Methods: []string{"GET"}, Main: w.NewScript("hb", chain.Op{K: chain.OpAddError}, chain.Op{K: chain.OpSet, S: "k1", S2: "b"})},
	}}
	r := prog.Apply(w)
	for round := 0; round < 20; round++ {
		a := w.NewRequest("GET", "/a")
		a.Serve(r)
		for i := 0; i < 3; i++ {
			w.NewRequest("GET", "/b").Serve(r)
		}
		if err := a.CheckCopies(); err != nil {
			t.Fatalf("round %d: %v", round, err)
		}
	}
}
