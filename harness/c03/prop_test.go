// C03 — concurrent requests are independent of each other and race-free.
package c03

import (
	"crypto/sha1"
	"encoding/json"
	"errors"
	"fmt"
	"io"
	"net/http"
	"net/http/httptest"
	"net/url"
	"os"
	"runtime"
	"sort"
	"strings"
	"sync"
	"testing"

	"github.com/gookit/rux"
	"pgregory.net/rapid"

	"verifharness/chain"
	"verifharness/ev"
	"verifharness/model"
)

func TestMain(m *testing.M) {
	code := m.Run()
	ev.Dump()
	if reuseDir != "" {
		_ = os.RemoveAll(reuseDir)
	}
	os.Exit(code)
}

func genShape(t *rapid.T, w *chain.World, yields bool) (*chain.Program, *chain.PModel) {
	opts := model.Options{NotAllowed: rapid.Bool().Draw(t, "handle405"), Fallback: rapid.IntRange(0, 3).Draw(t, "fallback") == 0}
	if rapid.Bool().Draw(t, "caching") {
		opts.Caching, opts.CacheCap = true, rapid.IntRange(0, 2).Draw(t, "cap")
	}
	cfg := chain.ProgCfg{
		MaxDepth: rapid.IntRange(0, 2).Draw(t, "maxDepth"), MaxMw: 2, MaxStmts: 5, Fallbacks: true, Dynamic: true, AnyRoutes: true,
		Script: chain.ScriptCfg{Writes: true, Data: true, Pollute: true, Yields: yields, Copies: true, Abort: 12, Panic: 16},
	}
	prog := chain.GenProgram(t, w, opts, cfg)
	// a panic hook, so that a panicking request is contained and the others go on
	prog.Hooks.OnPanic = w.NewScript("onpanic", chain.Op{K: chain.OpStatus, N: 500})
	// global middleware added through several separate Use calls: this is what leaves spare capacity in the shared slice
	nuse := rapid.IntRange(0, 4).Draw(t, "globalUseCalls")
	var pre []*chain.Stmt
	for i := 0; i < nuse; i++ {
		pre = append(pre, &chain.Stmt{Kind: "use", Hs: []*chain.Script{chain.GenScript(t, w, "u", cfg.Script)}})
	}
	prog.Body = append(pre, prog.Body...)
	if opts.Fallback && rapid.Bool().Draw(t, "starRoute") {
		prog.Body = append(prog.Body, &chain.Stmt{Kind: "route", Style: 3, Methods: model.Methods, Path: "/*", Main: chain.GenScript(t, w, "h", cfg.Script)})
	}
	return prog, prog.Model()
}

func genRequests(t *rapid.T, pm *chain.PModel, lo, hi int) [][2]string {
	pool := chain.Requests(t, pm, 3)
	for _, q := range pool { // HEAD served by a GET route
		if q[0] == "GET" {
			pool = append(pool, [2]string{"HEAD", q[1]})
			break
		}
	}
	if len(pool) == 0 {
		return nil
	}
	n := rapid.IntRange(lo, hi).Draw(t, "nreq")
	out := make([][2]string, n)
	for i := range out {
		out[i] = pool[rapid.IntRange(0, len(pool)-1).Draw(t, "req")]
	}
	return out
}

// execSchedule runs the requests under the interleaving chosen by pick (index into the runnable list) and applies
// both oracles; it returns the failure text or "".
func execSchedule(prog *chain.Program, pm *chain.PModel, reqs [][2]string, pick func(n int) int) (msg string, schedule []int, overlaps, switches int) {
	w := chain.NewWorld()
	r := prog.Apply(w)
	s := chain.NewSched()
	w.Sched = s
	defer s.Stop()
	states := make([]*chain.ReqState, len(reqs))
	for i, q := range reqs {
		states[i] = w.NewRequest(q[0], q[1])
		s.Start(states[i], r)
	}
	runnable := make([]int, len(reqs))
	for i := range runnable {
		runnable[i] = i
	}
	started := map[int]bool{}
	outs := make([]chain.Outcome, len(reqs))
	last := -1
	ctx := func() string {
		return fmt.Sprintf("schedule %v\nrequests %v\nprogram:\n%sscripts:\n%s", schedule, reqs, prog, prog.Scripts())
	}
	for len(runnable) > 0 {
		k := pick(len(runnable))
		i := runnable[k]
		schedule = append(schedule, i)
		for _, x := range runnable {
			if x != i && started[x] {
				overlaps++
				break
			}
		}
		if last >= 0 && last != i {
			switches++
		}
		last = i
		started[i] = true
		id, done, out := s.Step(states[i].ID)
		if id != states[i].ID {
			return fmt.Sprintf("request %d was resumed but a handler serving request %q reported the next boundary (cross-talk)\n%s", i, id, ctx()), schedule, overlaps, switches
		}
		if done {
			outs[i] = out
			runnable = append(runnable[:k], runnable[k+1:]...)
		}
	}
	// oracle 1: every request equals the model's prediction for that request alone
	for i, q := range reqs {
		chainS, ps, _ := pm.Expect(q[0], q[1])
		want, _ := chain.ModelDispatch(chainS, pm.Hooks, chain.NewRec(), states[i].Req, ps, false)
		if d := chain.Diff(outs[i], want); d != "" {
			return fmt.Sprintf("request %d (%s %q) under the interleaving differs from what it does alone:\n%s\n%s", i, q[0], q[1], d, ctx()), schedule, overlaps, switches
		}
		if err := states[i].Rec.CheckCommit(); err != nil {
			return fmt.Sprintf("request %d: %v\n%s", i, err, ctx()), schedule, overlaps, switches
		}
	}
	// context copies taken by handlers keep what they held when their request ended
	for i := range reqs {
		if err := states[i].CheckCopies(); err != nil {
			return fmt.Sprintf("%v\n%s", err, ctx()), schedule, overlaps, switches
		}
	}
	// oracle 2: the same requests, one after the other, on a fresh twin router
	w2 := chain.NewWorld()
	twin := prog.Apply(w2)
	for i, q := range reqs {
		st := w2.NewRequest(q[0], q[1])
		if d := chain.Diff(outs[i], st.Serve(twin)); d != "" {
			return fmt.Sprintf("request %d (%s %q) under the interleaving differs from the sequential run on a twin router:\n%s\n%s", i, q[0], q[1], d, ctx()), schedule, overlaps, switches
		}
	}
	return "", schedule, overlaps, switches
}

// propSched: the interleaving of the in-flight requests is a generated value.
func propSched(t *rapid.T) {
	ev.Case()
	w := chain.NewWorld()
	prog, pm := genShape(t, w, true)
	if len(pm.Routes) == 0 {
		t.Skip("no routes")
	}
	reqs := genRequests(t, pm, 2, ev.Pick(4, 6))
	if reqs == nil {
		t.Skip("no requests")
	}
	for _, q := range reqs {
		if c, _, _ := pm.Expect(q[0], q[1]); len(c) > 62 {
			t.Skip("chain too long")
		}
	}
	msg, schedule, overlaps, switches := execSchedule(prog, pm, reqs, func(n int) int { return rapid.IntRange(0, n-1).Draw(t, "pick") })
	ev.Eval()
	if msg != "" {
		t.Fatalf("%s", msg)
	}
	ev.Class(fmt.Sprintf("requests=%d", len(reqs)))
	if overlaps > 0 {
		ev.Class("schedule:overlapping")
		ev.ClassN("schedule:switches", switches)
		ev.NonTrivial(prog.Scripts()+fmt.Sprint(reqs, schedule), func() string { return fmt.Sprintf("requests %v schedule %v\n%s", reqs, schedule, prog) })
	} else {
		ev.Class("schedule:sequential")
	}
	if prog.Opts.Caching {
		ev.Class("router:caching")
	}
}

func TestPropSched(t *testing.T) { rapid.Check(t, propSched) }

// propRace: the same generator, free-running goroutines; compiled with -race by the driver.
// Oracle: no race report (the detector aborts the process) and every response equals the sequential expectation.
func propRace(t *rapid.T) {
	ev.Case()
	w := chain.NewWorld()
	prog, pm := genShape(t, w, false)
	if len(pm.Routes) == 0 {
		t.Skip("no routes")
	}
	reqs := genRequests(t, pm, 2, 8)
	if reqs == nil {
		t.Skip("no requests")
	}
	for _, q := range reqs {
		if c, _, _ := pm.Expect(q[0], q[1]); len(c) > 62 {
			t.Skip("chain too long")
		}
	}
	ng := rapid.IntRange(4, ev.Pick(8, 16)).Draw(t, "goroutines")
	per := rapid.IntRange(20, ev.Pick(50, 200)).Draw(t, "requestsPerGoroutine")
	if f := os.Getenv("VERIF_CASEFILE"); f != "" {
		b, _ := json.Marshal(map[string]any{"test": "TestRaceStress", "goroutines": ng, "per_goroutine": per, "requests": reqs,
			"program": prog.String(), "scripts": prog.Scripts(), "rapid_seed": os.Getenv("VERIF_RAPID_SEED"), "rapid_checks": os.Getenv("VERIF_RAPID_CHECKS")})
		_ = os.WriteFile(f, b, 0o644)
	}
	r := prog.Apply(w)
	var wg sync.WaitGroup
	errs := make(chan string, ng)
	start := make(chan struct{})
	copies := make(chan *chain.ReqState, ng*per)
	var bg sync.WaitGroup
	bg.Add(1)
	go func() { // the "background job" that reads context copies while other requests are being served
		defer bg.Done()
		for st := range copies {
			for k := 0; k < 3; k++ {
				if err := st.CheckCopies(); err != nil {
					select {
					case errs <- err.Error():
					default:
					}
				}
			}
		}
	}()
	for g := 0; g < ng; g++ {
		wg.Add(1)
		go func(g int) {
			defer wg.Done()
			<-start
			for k := 0; k < per; k++ {
				q := reqs[(g+k)%len(reqs)]
				msg, _, st := chain.CheckRequestState(w, r, pm, q[0], q[1])
				if st != nil && len(st.Copies) > 0 {
					copies <- st
				}
				if msg != "" {
					select {
					case errs <- msg:
					default:
					}
					return
				}
			}
		}(g)
	}
	close(start)
	wg.Wait()
	close(copies)
	bg.Wait()
	ev.ClassN("concurrent-requests", ng*per)
	select {
	case msg := <-errs:
		t.Fatalf("under %d free-running goroutines: %s\nprogram:\n%sscripts:\n%s", ng, msg, prog, prog.Scripts())
	default:
	}
	ev.Eval()
	ev.NonTrivial(prog.Scripts()+fmt.Sprint(reqs, ng, per), func() string {
		return fmt.Sprintf("%d goroutines x %d requests from %v\n%s", ng, per, reqs, strings.TrimSpace(prog.String()))
	})
}

func TestRaceStress(t *testing.T) { rapid.Check(t, propRace) }

// propRaceCache: a tiny route cache hammered by free-running goroutines that ask for a handful of dynamic paths.
// Oracle: every single answer is the route and the parameter of ITS request (a lookup that is handed another
// request's cache entry is cross-talk, with or without a data race), and no race report.
func propRaceCache(t *rapid.T) {
	ev.Case()
	capacity := rapid.IntRange(1, 2).Draw(t, "cap")
	r := rux.New(rux.CachingWithNum(uint16(capacity)))
	if rapid.Bool().Draw(t, "handle405") {
		r = rux.New(rux.CachingWithNum(uint16(capacity)), rux.HandleMethodNotAllowed)
	}
	h := func(name string) rux.HandlerFunc {
		return func(c *rux.Context) { c.WriteString(name + ":" + c.Param("id")) }
	}
	r.GET("/users/{id}", h("user"))
	r.GET("/posts/{id}", h("post"))
	r.GET("/{id}/x", h("x"))
	type q struct{ path, want string }
	all := []q{{"/users/1", "user:1"}, {"/users/2", "user:2"}, {"/posts/1", "post:1"}, {"/posts/3", "post:3"}, {"/7/x", "x:7"}, {"/users/33", "user:33"},
		{"/users/tom", "user:tom"}, {"/users/Tom", "user:Tom"}, {"/users/TOM", "user:TOM"}} // paths that differ in letter case only
	np := rapid.IntRange(2, 4).Draw(t, "npaths")
	qs := rapid.SliceOfNDistinct(rapid.SampledFrom(all), np, np, func(x q) string { return x.path }).Draw(t, "paths")
	ng := rapid.IntRange(4, ev.Pick(8, 16)).Draw(t, "goroutines")
	per := rapid.IntRange(200, ev.Pick(600, 3000)).Draw(t, "requestsPerGoroutine")
	if f := os.Getenv("VERIF_CASEFILE"); f != "" {
		b, _ := json.Marshal(map[string]any{"test": "TestRaceCache", "goroutines": ng, "per_goroutine": per, "paths": fmt.Sprint(qs), "cap": capacity,
			"rapid_seed": os.Getenv("VERIF_RAPID_SEED"), "rapid_checks": os.Getenv("VERIF_RAPID_CHECKS")})
		_ = os.WriteFile(f, b, 0o644)
	}
	var wg sync.WaitGroup
	errs := make(chan string, ng)
	start := make(chan struct{})
	for g := 0; g < ng; g++ {
		wg.Add(1)
		go func(g int) {
			defer wg.Done()
			<-start
			for k := 0; k < per; k++ {
				x := qs[(g+k)%len(qs)]
				var got string
				if k%2 == 0 {
					rec := httptest.NewRecorder()
					r.ServeHTTP(rec, &http.Request{Method: "GET", URL: &url.URL{Path: x.path}, Header: http.Header{}})
					got = rec.Body.String()
				} else if rt, ps, _ := r.Match("GET", x.path); rt != nil {
					got = map[string]string{"/users/{id}": "user", "/posts/{id}": "post", "/{id}/x": "x"}[rt.Path()] + ":" + ps["id"]
				}
				if got != x.want {
					select {
					case errs <- fmt.Sprintf("GET %q answered %q, want %q (cache capacity %d, paths %v, %d goroutines)", x.path, got, x.want, capacity, qs, ng):
					default:
					}
					return
				}
			}
		}(g)
	}
	close(start)
	wg.Wait()
	ev.Eval()
	ev.ClassN("cache-hammer-requests", ng*per)
	select {
	case msg := <-errs:
		t.Fatalf("%s", msg)
	default:
	}
	ev.NonTrivial(fmt.Sprint("cache", capacity, qs, ng, per), func() string {
		return fmt.Sprintf("cache capacity %d, paths %v, %d goroutines x %d", capacity, qs, ng, per)
	})
}

func TestRaceCache(t *testing.T) { rapid.Check(t, propRaceCache) }

// propRaceCopy: Context.Copy() is what a handler hands to a goroutine.  The goroutine works with its copy (reads
// values, parameters, errors; records its own result) while the handler goes on with the original (sets values, adds
// errors, changes parameters) and while later requests reuse the pooled context.  Nothing here is shared by the
// application itself, so every race report is about rux's own state.  Oracle: the race detector stays silent, and
// each copy holds at the end what it held when it was taken plus what its own goroutine wrote.
func propRaceCopy(t *rapid.T) {
	ev.Case()
	r := rux.New()
	if rapid.Bool().Draw(t, "caching") {
		r = rux.New(rux.CachingWithNum(2))
	}
	rounds := rapid.IntRange(20, ev.Pick(80, 400)).Draw(t, "rounds")
	ng := rapid.IntRange(1, 4).Draw(t, "clients")
	if f := os.Getenv("VERIF_CASEFILE"); f != "" {
		b, _ := json.Marshal(map[string]any{"test": "TestRaceCopy", "clients": ng, "rounds": rounds,
			"rapid_seed": os.Getenv("VERIF_RAPID_SEED"), "rapid_checks": os.Getenv("VERIF_RAPID_CHECKS")})
		_ = os.WriteFile(f, b, 0o644)
	}
	var jobs sync.WaitGroup
	var done sync.Map // request id -> channel closed by the client when ServeHTTP has returned
	bad := make(chan string, 64)
	r.GET("/job/{id}", func(c *rux.Context) {
		id := c.Param("id")
		c.Set("owner", id)
		c.AddError(fmt.Errorf("warning of %s", id))
		cp := c.Copy()
		// the handler also hands the map of its values (c.Data()) to the job, which looks at it once the request is
		// over: nobody writes to it then - unless a later request is given the very same map
		kept := c.Data()
		doneCh, _ := done.Load(id)
		jobs.Add(1)
		go func() {
			defer jobs.Done()
			if ch, ok := doneCh.(chan struct{}); ok {
				defer func() {
					<-ch
					for i := 0; i < 3; i++ {
						if v := kept["owner"]; v != id {
							select {
							case bad <- fmt.Sprintf("the values of job %s, looked at after its request ended: owner=%v", id, v):
							default:
							}
							return
						}
					}
				}()
			}
			for i := 0; i < 3; i++ {
				if v, _ := cp.Get("owner"); v != id || cp.Param("id") != id || len(cp.Errors) < 1 || cp.Errors[0].Error() != "warning of "+id {
					select {
					case bad <- fmt.Sprintf("copy of job %s holds owner=%v id=%q errors=%v", id, v, cp.Param("id"), cp.Errors):
					default:
					}
					return
				}
				cp.Set("progress", i)
				cp.AddError(fmt.Errorf("job %s step %d", id, i))
				_ = cp.Data()
			}
		}()
		// the handler goes on with its own context
		c.Set("later", id)
		c.AddError(fmt.Errorf("late warning of %s", id))
		c.Params["extra"] = id
		c.WriteString("started " + id)
	})
	var wg sync.WaitGroup
	for g := 0; g < ng; g++ {
		wg.Add(1)
		go func(g int) {
			defer wg.Done()
			for k := 0; k < rounds; k++ {
				id := fmt.Sprintf("c%dk%d", g, k)
				ch := make(chan struct{})
				done.Store(id, ch)
				rec := httptest.NewRecorder()
				r.ServeHTTP(rec, &http.Request{Method: "GET", URL: &url.URL{Path: "/job/" + id}, Header: http.Header{}})
				close(ch)
				if rec.Body.String() != "started "+id {
					select {
					case bad <- fmt.Sprintf("GET /job/%s answered %q", id, rec.Body.String()):
					default:
					}
				}
			}
		}(g)
	}
	wg.Wait()
	jobs.Wait()
	ev.Eval()
	ev.ClassN("copies-handed-to-goroutines", ng*rounds)
	select {
	case msg := <-bad:
		t.Fatalf("%s", msg)
	default:
	}
	ev.NonTrivial(fmt.Sprint("copy", ng, rounds), func() string {
		return fmt.Sprintf("%d clients x %d requests, each hands a copy to a goroutine", ng, rounds)
	})
}

func TestRaceCopy(t *testing.T) { rapid.Check(t, propRaceCopy) }

var (
	reuseOnce sync.Once
	reuseDir  string
)

// propRaceRequestValue: one *http.Request value handed to ServeHTTP by several goroutines at once (a proxy that fans a
// request out, a test that reuses its request) - for routes whose handlers only read it: a dynamic route and the
// StaticDir / StaticFS mounts, which work on a copy.  Every serving answers like the first one, the request's URL
// is untouched afterwards, and nothing races.
func propRaceRequestValue(t *rapid.T) {
	ev.Case()
	reuseOnce.Do(func() {
		base := os.Getenv("VERIF_SANDBOX")
		if base == "" {
			base = os.TempDir()
		}
		_ = os.MkdirAll(base, 0o755)
		reuseDir, _ = os.MkdirTemp(base, "c03-static-")
		_ = os.MkdirAll(reuseDir+"/sub", 0o755)
		_ = os.WriteFile(reuseDir+"/sub/a.txt", []byte("FILE-A"), 0o644)
	})
	r := rux.New()
	r.GET("/users/{id}", func(c *rux.Context) { c.WriteString("user:" + c.Param("id")) })
	r.StaticDir("/dir", reuseDir)
	r.StaticFS("/fs", http.Dir(reuseDir))
	q := rapid.SampledFrom([]struct{ path, want string }{{"/users/7", "user:7"}, {"/dir/sub/a.txt", "FILE-A"}, {"/fs/sub/a.txt", "FILE-A"}}).Draw(t, "request")
	ng := rapid.IntRange(2, 6).Draw(t, "goroutines")
	per := rapid.IntRange(5, ev.Pick(40, 200)).Draw(t, "servingsPerGoroutine")
	if f := os.Getenv("VERIF_CASEFILE"); f != "" {
		b, _ := json.Marshal(map[string]any{"test": "TestRaceRequestValue", "path": q.path, "goroutines": ng, "per_goroutine": per,
			"rapid_seed": os.Getenv("VERIF_RAPID_SEED"), "rapid_checks": os.Getenv("VERIF_RAPID_CHECKS")})
		_ = os.WriteFile(f, b, 0o644)
	}
	req := httptest.NewRequest("GET", q.path, nil)
	var wg sync.WaitGroup
	bad := make(chan string, ng)
	for g := 0; g < ng; g++ {
		wg.Add(1)
		go func() {
			defer wg.Done()
			for k := 0; k < per; k++ {
				rec := httptest.NewRecorder()
				r.ServeHTTP(rec, req)
				if rec.Code != 200 || rec.Body.String() != q.want {
					select {
					case bad <- fmt.Sprintf("GET %s served from one request value by %d goroutines answered %d %q, want 200 %q", q.path, ng, rec.Code, rec.Body.String(), q.want):
					default:
					}
					return
				}
			}
		}()
	}
	wg.Wait()
	ev.Eval()
	select {
	case msg := <-bad:
		t.Fatalf("%s", msg)
	default:
	}
	if req.URL.Path != q.path {
		t.Fatalf("serving changed the caller's request: URL.Path is %q, was %q", req.URL.Path, q.path)
	}
	ev.ClassN("servings-of-one-request-value", ng*per)
	ev.NonTrivial(fmt.Sprint("reuse", q.path, ng, per), func() string {
		return fmt.Sprintf("%s: %d goroutines x %d servings of one request value", q.path, ng, per)
	})
}

func TestRaceRequestValue(t *testing.T) { rapid.Check(t, propRaceRequestValue) }

// propRenderSolo: pages rendered through Router.Renderer, by several requests at the same time and one after another,
// some of them with a template that fails after it has written part of its page.  Every request gets exactly the
// response it gets as the only request on a fresh, identical router.
type halfRenderer struct{}

func (halfRenderer) Render(w io.Writer, name string, data any, ctx *rux.Context) error {
	_, _ = io.WriteString(w, "<head>"+name+"</head>")
	if strings.HasPrefix(name, "bad") {
		return errors.New("template " + name + " is broken after its head")
	}
	_, _ = io.WriteString(w, "<body>"+fmt.Sprint(data)+"</body>")
	return nil
}

func buildRenderRouter() *rux.Router {
	r := rux.New()
	r.Renderer = halfRenderer{}
	r.GET("/view/{name}", func(c *rux.Context) {
		if err := c.Render(200, c.Param("name"), c.Query("d")); err != nil {
			c.Text(500, "render failed: "+err.Error())
		}
	})
	return r
}

func propRenderSolo(t *rapid.T) {
	ev.Case()
	r := buildRenderRouter()
	solo := func(p string) string {
		rec := httptest.NewRecorder()
		buildRenderRouter().ServeHTTP(rec, httptest.NewRequest("GET", p, nil))
		return fmt.Sprintf("%d %q", rec.Code, rec.Body.String())
	}
	gen := func(label string) string {
		return "/view/" + rapid.SampledFrom([]string{"home", "about", "bad1", "bad2", "list"}).Draw(t, label) + "?d=" + rapid.StringMatching(`[a-z]{0,3}`).Draw(t, label+"Data")
	}
	rounds := rapid.IntRange(1, 3).Draw(t, "rounds")
	for round := 0; round < rounds; round++ {
		k := rapid.IntRange(1, 4).Draw(t, "atOnce")
		paths := make([]string, k)
		for i := range paths {
			paths[i] = gen("view")
		}
		got := make([]string, k)
		var wg sync.WaitGroup
		for i := range paths {
			wg.Add(1)
			go func(i int) {
				defer wg.Done()
				rec := httptest.NewRecorder()
				r.ServeHTTP(rec, httptest.NewRequest("GET", paths[i], nil))
				got[i] = fmt.Sprintf("%d %q", rec.Code, rec.Body.String())
			}(i)
		}
		wg.Wait()
		for i, p := range paths {
			ev.Eval()
			if want := solo(p); got[i] != want {
				t.Fatalf("round %d, %d requests at once %v: GET %s answers %s, alone on a fresh router %s", round, k, paths, p, got[i], want)
			}
		}
		if k > 1 || round > 0 {
			ev.NonTrivial(fmt.Sprint(round, paths), func() string { return fmt.Sprint(paths) })
		}
	}
}

func TestPropRenderSolo(t *testing.T) { rapid.Check(t, propRenderSolo) }

// propRaceSoloAnswers: a mixed load served at the same time through one http.ServeMux - OPTIONS requests answered by
// a NotAllowed handler that edits the list it is handed, bodies streamed from plain readers (some to a writer that
// breaks), a rux.HandlerFunc mounted as a plain http.Handler - and every request must get exactly the answer it gets
// alone on a fresh set-up.  Run under the race detector.
type onlyReader struct{ r io.Reader }

func (o onlyReader) Read(p []byte) (int, error) { return o.r.Read(p) }

type brokenWriter struct{ h http.Header }

func (b brokenWriter) Header() http.Header       { return b.h }
func (b brokenWriter) WriteHeader(int)           {}
func (b brokenWriter) Write([]byte) (int, error) { return 0, errors.New("connection reset") }

func buildSoloMux() http.Handler {
	r := rux.New(rux.HandleMethodNotAllowed)
	r.Use(func(c *rux.Context) { c.Next() })
	r.NotAllowed(func(c *rux.Context) {
		own, _ := c.SafeGet(rux.CTXAllowedMethods).([]string)
		sorted := append([]string{}, own...)
		sort.Strings(sorted)
		c.SetStatus(405)
		c.WriteString("allowed:" + strings.Join(sorted, ","))
		for i := range own { // its list: it may do with it what it likes
			own[i] = "GET"
		}
	})
	for _, m := range []string{"GET", "POST", "PUT", "DELETE"} {
		r.Add("/res/{id}", func(c *rux.Context) { c.WriteString("res:" + c.Param("id")) }, m)
	}
	r.GET("/stream/{n}", func(c *rux.Context) {
		n := c.Params.Int("n")
		body := strings.Repeat(fmt.Sprintf("<%d>", n), 3000+n) // several buffers long, different per request
		c.Stream(200, "text/plain", onlyReader{strings.NewReader(body)})
	})
	mux := http.NewServeMux()
	mux.Handle("/hf/", rux.HandlerFunc(func(c *rux.Context) {
		c.Set("who", c.Req.URL.Path)
		runtime.Gosched()
		c.SetStatus(201)
		c.WriteString("hf:" + c.Req.URL.Path + ":" + fmt.Sprint(c.SafeGet("who")))
	}))
	mux.Handle("/", r)
	return mux
}

func propRaceSoloAnswers(t *rapid.T) {
	ev.Case()
	h := buildSoloMux()
	type job struct{ m, p string }
	gen := rapid.Custom(func(t *rapid.T) job {
		n := rapid.IntRange(0, 9).Draw(t, "n")
		switch rapid.IntRange(0, 3).Draw(t, "kind") {
		case 0:
			return job{"OPTIONS", fmt.Sprintf("/res/%d", n)}
		case 1:
			return job{"GET", fmt.Sprintf("/stream/%d", n)}
		case 2:
			return job{"GET", fmt.Sprintf("/hf/%d", n)}
		}
		return job{"BROKEN", fmt.Sprintf("/stream/%d", n)} // a stream whose client has gone
	})
	solo := func(j job) string {
		rec := httptest.NewRecorder()
		buildSoloMux().ServeHTTP(rec, httptest.NewRequest(j.m, j.p, nil))
		return fmt.Sprintf("%d %d bytes %x", rec.Code, rec.Body.Len(), sha1.Sum(rec.Body.Bytes()))
	}
	g := rapid.IntRange(2, 6).Draw(t, "goroutines")
	plans := make([][]job, g)
	for i := range plans {
		plans[i] = rapid.SliceOfN(gen, 2, 6).Draw(t, "plan")
	}
	errs := make([]string, g)
	var wg sync.WaitGroup
	for i := range plans {
		wg.Add(1)
		go func(i int) {
			defer wg.Done()
			for _, j := range plans[i] {
				if j.m == "BROKEN" {
					func() {
						defer func() { _ = recover() }()
						h.ServeHTTP(brokenWriter{http.Header{}}, httptest.NewRequest("GET", j.p, nil))
					}()
					continue
				}
				rec := httptest.NewRecorder()
				h.ServeHTTP(rec, httptest.NewRequest(j.m, j.p, nil))
				got := fmt.Sprintf("%d %d bytes %x", rec.Code, rec.Body.Len(), sha1.Sum(rec.Body.Bytes()))
				if want := solo(j); got != want {
					errs[i] = fmt.Sprintf("%s %s answered %s, alone on a fresh set-up %s", j.m, j.p, got, want)
					return
				}
			}
		}(i)
	}
	wg.Wait()
	ev.Eval()
	for _, e := range errs {
		if e != "" {
			t.Fatalf("%d goroutines, plans %v: %s", g, plans, e)
		}
	}
	ev.NonTrivial(fmt.Sprint(plans), func() string { return fmt.Sprintf("%d goroutines: %v", g, plans) })
}

func TestRaceSoloAnswers(t *testing.T) { rapid.Check(t, propRaceSoloAnswers) }
