package c10

import (
	"net/http"
	"net/http/httptest"
	"net/url"
	"testing"

	"github.com/gookit/rux"
)

// D17: on a caching router a handler that changes c.Params must not change what later requests for the same path see.
func TestRegress(t *testing.T) {
	for _, capacity := range []uint16{1, 2, 1000} {
		r := rux.New(rux.CachingWithNum(capacity))
		var seen []string
		r.GET("/users/{id}", func(c *rux.Context) {
			seen = append(seen, c.Param("id"))
			c.Params["id"] = "polluted"
			c.Params["extra"] = "x"
		})
		for i := 0; i < 4; i++ {
			r.ServeHTTP(httptest.NewRecorder(), &http.Request{Method: "GET", URL: &url.URL{Path: "/users/7"}, Header: http.Header{}})
		}
		for i, s := range seen {
			if s != "7" {
				t.Errorf("capacity %d: request %d saw id=%q, want 7 (%v)", capacity, i, s, seen)
				break
			}
		}
		if _, ps, _ := r.Match("GET", "/users/7"); len(ps) != 1 || ps["id"] != "7" {
			t.Errorf("capacity %d: Match after polluting handlers gives %v", capacity, ps)
		}
	}
}
