package c10

import (
	"net/http"
	"net/http/httptest"
	"net/url"
	"testing"

	"github.com/gookit/rux"
)

// D17: on a caching router a handler that changes c.Params must not change what later requests for the same path see.
func TestRegress(t *testing.T) {
	for _, capacity := range []uint16{1, 2, 1000} {
		r := rux.New(rux.CachingWithNum(capacity))
		var seen []string
		r.GET("/users/{id}", func(c *rux.Context) {
			seen = append(seen, c.Param("id"))
			c.Params["id"] = "polluted"
			c.Params["extra"] = "x"
		})
		for i := 0; i < 4; i++ {
			r.ServeHTTP(httptest.NewRecorder(), &http.Request{Method: "GET", URL: &url.URL{Path: "/users/7"}, Header: http.Header{}})
		}
		for i, s := range seen {
			if s != "7" {
				t.Errorf("capacity %d: request %d saw id=%q, want 7 (%v)", capacity, i, s, seen)
				break
			}
		}
		if _, ps, _ := r.Match("GET", "/users/7"); len(ps) != 1 || ps["id"] != "7" {
			t.Errorf("capacity %d: Match after polluting handlers gives %v", capacity, ps)
		}
	}
}

// D20: a request whose handler forwards its context through HandleContext must not leave the context in the pool
// twice; afterwards a request that serves a nested request must still see its own state.
func TestRegressForwardThenNested(t *testing.T) {
	for round := 0; round < 30; round++ {
		r := buildForwardRouter()
		for _, p := range []string{"/x", "/outer/a", "/x", "/x", "/outer/b", "/plain/p", "/outer/c"} {
			got, want := httptest.NewRecorder(), httptest.NewRecorder()
			r.ServeHTTP(got, httptest.NewRequest("GET", p, nil))
			buildForwardRouter().ServeHTTP(want, httptest.NewRequest("GET", p, nil))
			if got.Code != want.Code || got.Body.String() != want.Body.String() {
				t.Fatalf("round %d: GET %s answers %d %q, on a fresh router %d %q", round, p, got.Code, got.Body.String(), want.Code, want.Body.String())
			}
		}
	}
}
