// C10 — every request starts from a pristine context whatever happened before.
package c10

import (
	"errors"
	"fmt"
	"io"
	"net/http"
	"net/http/httptest"
	"strings"
	"testing"

	"github.com/gookit/rux"
	"pgregory.net/rapid"

	"verifharness/chain"
	"verifharness/ev"
	"verifharness/model"
)

func TestMain(m *testing.M) { ev.Main(m) }

func userData(m map[string]any) string {
	var ss []string
	for _, k := range []string{"k1", "k2", "k3"} {
		if v, ok := m[k]; ok {
			ss = append(ss, fmt.Sprintf("%s=%v", k, v))
		}
	}
	// anything else that is not one of rux's own keys
	for k := range m {
		if !strings.HasPrefix(k, "_") && k != "k1" && k != "k2" && k != "k3" {
			ss = append(ss, "unexpected:"+k)
		}
	}
	return strings.Join(ss, ",")
}

// snapshot of everything a handler can observe about its context, taken by the first handler of a request.
func snapshot(c *rux.Context, st *chain.ReqState, r *rux.Router) string {
	ps := []string{}
	for _, k := range []string{"id", "zz"} {
		if v, ok := c.Params[k]; ok {
			ps = append(ps, k+"="+v)
		}
	}
	_, hasRecover := c.Get(rux.CTXRecoverResult)
	_, hasAllowed := c.Get(rux.CTXAllowedMethods)
	return fmt.Sprintf("data={%s} nparams=%d paramsNil=%v params={%s} errors=%d firstError=%v aborted=%v status=%d length=%d rawWriterIsMine=%v respType=%T reqIsMine=%v routerIsMine=%v reqCtxValue=%v recoverKey=%v allowedKey=%v handlerNonNil=%v",
		userData(c.Data()), len(c.Params), c.Params == nil, strings.Join(ps, ","), len(c.Errors), c.FirstError(), c.IsAborted(), c.StatusCode(), c.Length(),
		c.RawWriter() == st.Rec, c.Resp, c.Req == st.Req, c.Router() == r, c.ReqCtxValue("k"), hasRecover, hasAllowed, c.Handler() != nil)
}

func polluting(trace string, chainS []*chain.Script) bool {
	for _, s := range chainS {
		if !strings.Contains(trace, "enter "+s.Name) {
			continue
		}
		for _, o := range s.Ops {
			switch o.K {
			case chain.OpSet, chain.OpAddError, chain.OpAbort, chain.OpAbortThen, chain.OpAbortStatus, chain.OpAbortStatusMsg,
				chain.OpWrapResp, chain.OpReqCtx, chain.OpSetParam, chain.OpWrite, chain.OpStatus, chain.OpPanic, chain.OpHijack:
				return true
			}
		}
	}
	return false
}

func prop(t *rapid.T) {
	ev.Case()
	w := chain.NewWorld()
	opts := model.Options{NotAllowed: rapid.Bool().Draw(t, "handle405"), Strict: rapid.Bool().Draw(t, "strict")}
	if rapid.Bool().Draw(t, "caching") {
		// handlers mutate Params also on caching routers: C10 lists "parameters" among the things an earlier
		// request may have done to its context
		opts.Caching, opts.CacheCap = true, rapid.IntRange(0, 3).Draw(t, "cap")
	}
	cfg := chain.ProgCfg{
		MaxDepth: rapid.IntRange(0, 2).Draw(t, "maxDepth"), MaxMw: 2, MaxStmts: 4, Fallbacks: true, Dynamic: true,
		Script: chain.ScriptCfg{Writes: true, Data: true, Pollute: true, Copies: true, Hijack: true, Abort: 6, Panic: 10},
	}
	prog := chain.GenProgram(t, w, opts, cfg)
	// usually a panic hook is installed; without one the panic leaves ServeHTTP (the harness recovers it, as net/http
	// would) and the history goes on all the same
	if rapid.IntRange(0, 3).Draw(t, "panicHook") > 0 {
		prog.Hooks.OnPanic = w.NewScript("onpanic", chain.Op{K: chain.OpStatus, N: 500}, chain.Op{K: chain.OpSet, S: "k3", S2: "hook"})
	}
	if rapid.Bool().Draw(t, "onError") {
		prog.Hooks.OnError = w.NewScript("onerror", chain.Op{K: chain.OpStatus, N: 500}, chain.Op{K: chain.OpSet, S: "k2", S2: "err"})
	}
	pm := prog.Model()
	if len(pm.Routes) == 0 {
		t.Skip("no routes")
	}
	r := prog.Apply(w)
	pool := chain.Requests(t, pm, 3)
	if len(pool) == 0 {
		t.Skip("no requests")
	}
	n := rapid.IntRange(2, ev.Pick(12, 30)).Draw(t, "nreq")
	dirty := map[*rux.Context]bool{} // contexts whose last user polluted them
	var served []*chain.ReqState
	var lastRec *chain.RecWriter
	// one history in five is served on a single context the caller owns and re-initialises (Init) for every request
	var owned *rux.Context
	if rapid.IntRange(0, 4).Draw(t, "callerOwnedContext") == 0 {
		owned = &rux.Context{}
		ev.Class("history-on-one-caller-owned-context(Init+HandleContext)")
	}
	defer func() {
		// a context copy kept by an earlier request is not touched by later requests
		ncopies := 0
		for _, st := range served {
			ncopies += len(st.Copies)
			if err := st.CheckCopies(); err != nil {
				t.Fatalf("%v\nprogram:\n%sscripts:\n%s", err, prog, prog.Scripts())
			}
		}
		ev.ClassN("context-copies-kept-across-later-requests", ncopies)
	}()
	for i := 0; i < n; i++ {
		q := pool[rapid.IntRange(0, len(pool)-1).Draw(t, "pick")]
		chainS, ps, res := pm.Expect(q[0], q[1])
		if len(chainS) > 62 {
			continue
		}
		ev.Eval()
		// the same request as the first request on a freshly built twin
		w2 := chain.NewWorld()
		twin := prog.Apply(w2)
		var snapTwin, snapReal string
		st2 := w2.NewRequest(q[0], q[1])
		st2.First = func(c *rux.Context) { snapTwin = snapshot(c, st2, twin) }
		outTwin := st2.Serve(twin)

		st := w.NewRequest(q[0], q[1])
		st.First = func(c *rux.Context) {
			if owned != nil {
				snapReal = snapshot(c, st, nil) // a context made by the caller belongs to no router (Router() is nil)
			} else {
				snapReal = snapshot(c, st, r)
			}
		}
		// a server may hand the very same ResponseWriter object to consecutive requests: the recording writer of the
		// previous request, wiped, serves this one
		if lastRec != nil && rapid.IntRange(0, 3).Draw(t, "sameWriterObject") == 0 {
			*lastRec = *chain.NewRec()
			st.Rec = lastRec
			ev.Class("request:served-with-the-writer-object-of-the-previous-request")
		}
		lastRec = st.Rec
		var out chain.Outcome
		if owned != nil {
			out = st.ServeOn(r, owned)
		} else {
			out = st.Serve(r)
		}
		served = append(served, st)
		ctx := fmt.Sprintf("request %d of the history: %s %q (%s)\nprogram:\n%sscripts:\n%s", i, q[0], q[1], res.Kind, prog, prog.Scripts())
		if snapReal != snapTwin {
			t.Fatalf("context observed by the first handler:\n   %s\nas first request on a fresh twin router:\n   %s\n%s", snapReal, snapTwin, ctx)
		}
		if d := chain.Diff(out, outTwin); d != "" {
			t.Fatalf("outcome differs from the fresh twin router:\n%s\n%s", d, ctx)
		}
		want, _ := chain.ModelDispatch(chainS, pm.Hooks, chain.NewRec(), st.Req, ps, false)
		if d := chain.Diff(out, want); d != "" {
			t.Fatalf("%s\n%s", d, ctx)
		}
		ev.Class("request:" + res.Kind.String())
		if opts.Caching {
			ev.Class("router:caching")
		}
		if st.Ctx != nil {
			if was, seen := dirty[st.Ctx]; seen {
				ev.Class("context:recycled")
				if was {
					ev.Class("context:recycled-after-polluting-request")
					ev.NonTrivial(prog.Scripts()+fmt.Sprint(i, q), func() string {
						return fmt.Sprintf("request %d %s %q got the context of an earlier polluting request; snapshot: %s", i, q[0], q[1], snapReal)
					})
				}
			} else {
				ev.Class("context:new")
			}
			dirty[st.Ctx] = polluting(out.Trace, chainS)
		}
	}
}

func TestProp(t *testing.T) { rapid.Check(t, prop) }

// propForwardHistory: histories that contain internal forwards (a handler hands its context to
// Router.HandleContext for another path) and requests whose handler serves a nested request through the same router.
// Oracle (history independence, as in TestProp): every request answers exactly as it does as the first request on a
// freshly built identical router.
func buildForwardRouter() *rux.Router {
	r := rux.New()
	r.OnError = func(c *rux.Context) { c.WriteString(fmt.Sprintf("|OnError(%d)", len(c.Errors))) }
	r.GET("/y/{id}", func(c *rux.Context) {
		c.SetStatus(201)
		c.WriteString(fmt.Sprintf("y:%s data=%d errors=%d aborted=%v", c.Param("id"), len(c.Data()), len(c.Errors), c.IsAborted()))
	})
	r.GET("/x", func(c *rux.Context) {
		c.Set("k1", "from-x")
		c.AddError(errors.New("recorded by /x before it forwards"))
		c.Req.URL.Path = "/y/7"
		c.Router().HandleContext(c) // internal forward
	})
	r.GET("/inner/{id}", func(c *rux.Context) { c.WriteString("inner:" + c.Param("id")) })
	r.GET("/outer/{id}", func(c *rux.Context) {
		before := c.Param("id")
		c.Set("mark", "outer")
		rec := httptest.NewRecorder()
		r.ServeHTTP(rec, httptest.NewRequest("GET", "/inner/in", nil))
		mark, _ := c.Get("mark")
		c.WriteString(fmt.Sprintf("outer:%s/%s/%v/%s", before, c.Param("id"), mark, rec.Body.String()))
	})
	r.GET("/plain/{id}", func(c *rux.Context) {
		c.WriteString(fmt.Sprintf("plain:%s data=%d errors=%d", c.Param("id"), len(c.Data()), len(c.Errors)))
	})
	return r
}

func propForwardHistory(t *rapid.T) {
	ev.Case()
	r := buildForwardRouter()
	paths := []string{"/x", "/y/1", "/outer/o", "/plain/p", "/x", "/outer/q", "/nope"}
	n := rapid.IntRange(2, 8).Draw(t, "nreq")
	var hist []string
	forwarded := false
	for i := 0; i < n; i++ {
		p := rapid.SampledFrom(paths).Draw(t, "path")
		hist = append(hist, p)
		ev.Eval()
		got, want := httptest.NewRecorder(), httptest.NewRecorder()
		r.ServeHTTP(got, httptest.NewRequest("GET", p, nil))
		buildForwardRouter().ServeHTTP(want, httptest.NewRequest("GET", p, nil))
		if got.Code != want.Code || got.Body.String() != want.Body.String() {
			t.Fatalf("history %v: request %d (GET %s) answers %d %q, as first request on a fresh router %d %q", hist, i, p, got.Code, got.Body.String(), want.Code, want.Body.String())
		}
		// the dispatch that /x hands its context to is a request like any other: its handlers start from a pristine
		// context (HandleContext resets it) and answer what a direct request for the target answers
		if p == "/x" {
			direct := httptest.NewRecorder()
			buildForwardRouter().ServeHTTP(direct, httptest.NewRequest("GET", "/y/7", nil))
			if got.Code != direct.Code || got.Body.String() != direct.Body.String() {
				t.Fatalf("history %v: request %d (GET /x, forwarded to /y/7 by HandleContext) answers %d %q, a direct request for /y/7 answers %d %q", hist, i, got.Code, got.Body.String(), direct.Code, direct.Body.String())
			}
		}
		if forwarded && strings.HasPrefix(p, "/outer") {
			ev.Class("nested-request-after-a-forwarded-request")
			ev.NonTrivial(fmt.Sprint(hist), func() string { return fmt.Sprint(hist) })
		}
		if p == "/x" {
			forwarded = true
		}
	}
}

func TestPropForwardHistory(t *testing.T) { rapid.Check(t, propForwardHistory) }

// propHandlerFuncHistory: a rux.HandlerFunc used directly as an http.Handler (HandlerFunc.ServeHTTP) gives its
// handler a context as well.  Whatever earlier calls did to theirs, every call starts from a context that looks
// exactly like one made the documented way (&rux.Context{} + Init) for the same writer and request, and answers as
// the model of a chain of one handler says.
func propHandlerFuncHistory(t *rapid.T) {
	ev.Case()
	w := chain.NewWorld()
	n := rapid.IntRange(2, 8).Draw(t, "ncalls")
	polluted := false
	// the same with ONE context that the application keeps and re-initialises itself (Context.Init) before it hands
	// it to the handler - what HandlerFunc.ServeHTTP does with a new context each time
	var owned *rux.Context
	if rapid.IntRange(0, 2).Draw(t, "appOwnedContext") == 0 {
		owned = &rux.Context{}
		ev.Class("HandlerFunc-history-on-one-app-owned-context(Init)")
	}
	for i := 0; i < n; i++ {
		s := chain.GenScript(t, w, "hf", chain.ScriptCfg{Writes: true, Data: true, Pollute: true, Abort: 3, Nexts: []int{0, 0, 1}})
		st := w.NewRequest("GET", "/direct")
		snap := ""
		st.First = func(c *rux.Context) { snap = snapshot(c, st, nil) }
		if owned != nil {
			owned.Init(st.Rec, st.Req)
			w.Handler(s)(owned)
			ev.Eval()
			fresh := &rux.Context{}
			fresh.Init(st.Rec, st.Req)
			if wantSnap := snapshot(fresh, st, nil); snap != wantSnap {
				t.Fatalf("context after Init(), call %d of %d on one app-owned context:\n   %s\na new context after Init() for the same writer and request:\n   %s\nscript %s", i, n, snap, wantSnap, s)
			}
			if polluted {
				ev.Class("HandlerFunc-call-after-a-polluting-call")
			}
			polluted = polluted || polluting(st.Tr.String(), []*chain.Script{s})
			continue
		}
		var h http.Handler = rux.HandlerFunc(w.Handler(s))
		h.ServeHTTP(st.Rec, st.Req)
		ev.Eval()
		fresh := &rux.Context{}
		fresh.Init(st.Rec, st.Req)
		// status and length of the fresh context are read before anything was written through it: the pristine values
		wantSnap := snapshot(fresh, st, nil)
		ctx := fmt.Sprintf("call %d of %d, script %s", i, n, s)
		if snap != wantSnap {
			t.Fatalf("context seen by a HandlerFunc used as http.Handler:\n   %s\na context made by Init for the same writer and request:\n   %s\n%s", snap, wantSnap, ctx)
		}
		want, _ := chain.ModelDispatch([]*chain.Script{s}, chain.Hooks{}, chain.NewRec(), st.Req, nil, false)
		got := chain.Outcome{Trace: st.Tr.String(), Log: st.Rec.Log()}
		if d := chain.Diff(got, want); d != "" {
			t.Fatalf("HandlerFunc.ServeHTTP: %s\n%s", d, ctx)
		}
		if polluted {
			ev.Class("HandlerFunc-call-after-a-polluting-call")
			ev.NonTrivial(fmt.Sprint(i, s), func() string { return ctx })
		}
		polluted = polluted || polluting(got.Trace, []*chain.Script{s})
	}
}

func TestPropHandlerFuncHistory(t *testing.T) { rapid.Check(t, propHandlerFuncHistory) }

// propRenderHistory: views rendered through Router.Renderer.  A template that fails half-way (it has written part of
// its page when it returns the error) is an earlier request like any other: the next request's page is the page it
// gets as the first request on a fresh, identical router.
type halfRenderer struct{}

func (halfRenderer) Render(w io.Writer, name string, data any, ctx *rux.Context) error {
	_, _ = io.WriteString(w, "<head>"+name+"</head>")
	if strings.HasPrefix(name, "bad") {
		return errors.New("template " + name + " is broken after its head")
	}
	_, _ = io.WriteString(w, "<body>"+fmt.Sprint(data)+"</body>")
	return nil
}

func buildRenderRouter() *rux.Router {
	r := rux.New()
	r.Renderer = halfRenderer{}
	r.GET("/view/{name}", func(c *rux.Context) {
		if err := c.Render(200, c.Param("name"), c.Query("d")); err != nil {
			c.Text(500, "render failed: "+err.Error())
		}
	})
	return r
}

func propRenderHistory(t *rapid.T) {
	ev.Case()
	r := buildRenderRouter()
	n := rapid.IntRange(2, 8).Draw(t, "nreq")
	var hist []string
	failed := false
	for i := 0; i < n; i++ {
		p := "/view/" + rapid.SampledFrom([]string{"home", "about", "bad1", "bad2", "list"}).Draw(t, "view") + "?d=" + rapid.StringMatching(`[a-z]{0,3}`).Draw(t, "data")
		hist = append(hist, p)
		ev.Eval()
		got, want := httptest.NewRecorder(), httptest.NewRecorder()
		r.ServeHTTP(got, httptest.NewRequest("GET", p, nil))
		buildRenderRouter().ServeHTTP(want, httptest.NewRequest("GET", p, nil))
		if got.Code != want.Code || got.Body.String() != want.Body.String() {
			t.Fatalf("history %v: request %d (GET %s) answers %d %q, as first request on a fresh router %d %q", hist, i, p, got.Code, got.Body.String(), want.Code, want.Body.String())
		}
		if failed && !strings.Contains(p, "bad") {
			ev.Class("page-rendered-after-a-failed-render")
			ev.NonTrivial(fmt.Sprint(hist), func() string { return fmt.Sprint(hist) })
		}
		if strings.Contains(p, "bad") {
			failed = true
		}
	}
}

func TestPropRenderHistory(t *testing.T) { rapid.Check(t, propRenderHistory) }

// propWriterShapes: requests arrive on writers of different shapes - with and without http.Flusher (a test double, a
// wrapping middleware's writer) - and the handler flushes through c.Resp as handlers do.  Whatever the earlier
// requests' writers could do, a request behaves as on a fresh router with its own writer, and a finished request's
// writer receives nothing from later requests.
type plainWriter struct{ rec *chain.RecWriter }

func (p plainWriter) Header() http.Header         { return p.rec.Header() }
func (p plainWriter) Write(b []byte) (int, error) { return p.rec.Write(b) }
func (p plainWriter) WriteHeader(code int)        { p.rec.WriteHeader(code) }

func buildFlushRouter() *rux.Router {
	r := rux.New()
	r.GET("/f/{id}", func(c *rux.Context) {
		c.SetStatus(201)
		c.WriteString("a:" + c.Param("id"))
		c.Resp.(http.Flusher).Flush()
		c.WriteString(":b")
	})
	r.GET("/plain/{id}", func(c *rux.Context) { c.WriteString("plain:" + c.Param("id")) })
	return r
}

func propWriterShapes(t *rapid.T) {
	ev.Case()
	r := buildFlushRouter()
	serve := func(rt *rux.Router, p string, flusher bool) (rec *chain.RecWriter, out string) {
		rec = chain.NewRec()
		var w http.ResponseWriter = rec
		if !flusher {
			w = plainWriter{rec}
		}
		var pv any
		func() {
			defer func() { pv = recover() }()
			rt.ServeHTTP(w, httptest.NewRequest("GET", p, nil))
		}()
		return rec, fmt.Sprintf("panicked=%v calls=%s", pv != nil, rec.Log())
	}
	type done struct {
		rec *chain.RecWriter
		log string
		p   string
	}
	var earlier []done
	n := rapid.IntRange(2, 6).Draw(t, "nreq")
	kinds := map[bool]bool{}
	for i := 0; i < n; i++ {
		p := rapid.SampledFrom([]string{"/f/1", "/f/2", "/plain/3"}).Draw(t, "path")
		flusher := rapid.Bool().Draw(t, "writerCanFlush")
		ev.Eval()
		rec, got := serve(r, p, flusher)
		_, want := serve(buildFlushRouter(), p, flusher)
		if got != want {
			t.Fatalf("request %d (GET %s, writer with Flusher: %v): %s; as first request on a fresh router: %s", i, p, flusher, got, want)
		}
		for _, e := range earlier {
			if now := e.rec.Log(); now != e.log {
				t.Fatalf("request %d (GET %s, writer with Flusher: %v) reached the writer of the finished request GET %s: its calls were %s, now %s", i, p, flusher, e.p, e.log, now)
			}
		}
		earlier = append(earlier, done{rec, rec.Log(), p})
		kinds[flusher] = true
	}
	if len(kinds) == 2 {
		ev.Class("history-with-flushing-and-non-flushing-writers")
		ev.NonTrivial(fmt.Sprint(len(earlier), earlier[0].p, earlier[len(earlier)-1].p), func() string { return fmt.Sprintf("%d requests on writers of both shapes", n) })
	}
}

func TestPropWriterShapes(t *testing.T) { rapid.Check(t, propWriterShapes) }
