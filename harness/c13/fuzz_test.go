package c13

import (
	"strings"
	"testing"

	"github.com/gookit/rux"

	"verifharness/model"
)

// FuzzRegisterMatch: bytes -> option bits, two pattern strings, one method list, two request (method, path) pairs.
// Oracle inside the target: registration may panic, but whatever was accepted must never panic at lookup; when
// both patterns are inside the model's grammar the C01 differential is applied as well.
func FuzzRegisterMatch(f *testing.F) {
	seeds := append([]string{}, hostile...)
	seeds = append(seeds, "/users/{id}", `/blog/{title:\w+}[.html]`, "/posts[/{id}]", `/{name:[a-z]+}/{id:\d+}`, "/assets/{file:.+}", `/a/{f:.+\.(?:css|js)}`)
	for i, s := range seeds {
		f.Add(uint16(i), s, seeds[(i*7+3)%len(seeds)], "GET", "GET", "/a/xy", "/users/12.html")
		f.Add(uint16(i*31), s, "/{all}", "GET,POST", "HEAD", "   ", "/a/b/c/")
	}
	f.Fuzz(func(t *testing.T, bits uint16, p1, p2, methods, m, q1, q2 string) {
		if len(p1)+len(p2) > 300 || len(q1)+len(q2) > 300 || len(methods)+len(m) > 100 {
			return // size bound (not a time limit): longer inputs only make the regexp engine slow
		}
		var opts []func(*rux.Router)
		o := model.Options{}
		if bits&1 != 0 {
			opts, o.Strict = append(opts, rux.StrictLastSlash), true
		}
		if bits&2 != 0 {
			opts, o.NotAllowed = append(opts, rux.HandleMethodNotAllowed), true
		}
		if bits&4 != 0 {
			opts, o.Fallback = append(opts, rux.HandleFallbackRoute), true
		}
		if bits&8 != 0 {
			opts = append(opts, rux.EnableCaching)
		}
		if bits&16 != 0 {
			opts = append(opts, rux.CachingWithNum(uint16(bits>>8)%3))
		}
		if bits&32 != 0 {
			opts = append(opts, rux.UseEncodedPath)
		}
		r := rux.New(opts...)
		ms := strings.Split(methods, ",")
		validMs := len(ms) > 0
		for _, x := range ms {
			ok := false
			for _, y := range model.Methods {
				ok = ok || x == y
			}
			validMs = validMs && ok
		}
		tb := &model.Table{Opts: o}
		inGrammar := validMs
		for i, p := range []string{p1, p2} {
			accepted := try(func() { r.AddNamed(model.RouteDef{Idx: i}.Name(), p, noop, ms...) }) == nil
			// registration normalises the pattern text like any path (C11); the model parses the normal form
			ast, ok := model.Parse(model.Normalize(p, o.Strict))
			if !model.Stable(p, o.Strict) {
				ok = false
			}
			if ok && (ast.TrailSlash && !o.Strict) {
				ok = false
			}
			if p == "/*" {
				ast, ok = model.Pattern{Raw: "/*"}, true
			}
			if ok && validMs && !accepted {
				// no listed property says which definitions must be ACCEPTED (rux refuses, for instance, every
				// '(' that is not followed by '?', even inside a character class): nothing to compare then
				ok = false
			}
			if ok && validMs {
				if ast.IsStatic() && len(tb.Routes) == 1 && model.Normalize(tb.Routes[0].P.String(), o.Strict) == ast.String() {
					inGrammar = false // duplicate static route: outside C01's quantifier
				}
				tb.Routes = append(tb.Routes, model.RouteDef{P: ast, Methods: ms, Idx: i})
			} else {
				inGrammar = false
			}
		}
		for _, q := range []string{q1, q2, p1, "/" + q1 + "/" + q2} {
			for _, mm := range []string{m, "GET", "HEAD"} {
				if msg := lookup(r, mm, q); msg != "" {
					t.Fatalf("%s\n patterns %q %q methods %q bits %b", msg, p1, p2, ms, bits)
				}
				if inGrammar && len(tb.Routes) == 2 && model.Stable(q, o.Strict) && !strings.ContainsAny(mm, "/ \t\r\n") {
					res := tb.Resolve(strings.ToUpper(mm), q)
					rt, _, _ := r.Match(mm, q)
					if got := model.RouteIndex(rt); got != res.Route {
						t.Fatalf("Match(%q,%q): route %d, model %d (%s)\n table %s", mm, q, got, res.Route, res.Kind, tb)
					}
				}
			}
		}
	})
}
