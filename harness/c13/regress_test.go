package c13

import (
	"testing"

	"github.com/gookit/rux"
)

func TestRegress(t *testing.T) {
	// D6: prefixes and joined names are not method names
	for _, m := range []string{"DEL", "GE", "GET,POST", "G", "OPTION", "POS"} {
		if try(func() { rux.New().Add("/x", noop, m) }) == nil {
			t.Errorf("D6: method name %q accepted", m)
		}
	}
	for _, m := range []string{"get", " POST ", "Delete"} {
		if pv := try(func() { rux.New().Add("/x", noop, m) }); pv != nil {
			t.Errorf("method name %q rejected: %v", m, pv)
		}
	}
	// D7: capturing groups anywhere are rejected at registration
	for _, p := range []string{`/a/{id:(?:x)(y)}`, `/a/{id:(?P<n>x)}`, `/{a}(b)`, `/a(b)[c]`, `/a/{id:\d+(a)?}`, `/{id:(\d+)}`} {
		if try(func() { rux.New().GET(p, noop) }) == nil {
			t.Errorf("D7: pattern %q accepted", p)
			r := rux.New()
			r.GET(p, noop)
			for _, q := range []string{"/a/xy", "/xb", "/ab", "/abc", "/a/1a", "/1"} {
				if msg := lookup(r, "GET", q); msg != "" {
					t.Errorf("D7: %s", msg)
				}
			}
		}
	}
	for _, p := range []string{`/a/{id:(?:x)}`, `/a/{id:(?i)x}`, `/a/{f:.+\.(?:css|js)}`} {
		if pv := try(func() { rux.New().GET(p, noop) }); pv != nil {
			t.Errorf("pattern %q rejected: %v", p, pv)
		}
	}
	// D5: caching enabled on a router without routes
	for _, o := range [][]func(*rux.Router){{rux.EnableCaching}, {rux.CachingWithNum(0)}, {rux.EnableCaching, rux.HandleMethodNotAllowed}} {
		r := rux.New(o...)
		for _, q := range []string{"/a/b", "/", "", "/x"} {
			if msg := lookup(r, "GET", q); msg != "" {
				t.Errorf("D5: %s", msg)
			}
		}
	}
	// D4
	if msg := lookup(rux.New(), "GET", "   "); msg != "" {
		t.Errorf("D4: %s", msg)
	}
}
