// C13 — bad route definitions fail at registration; accepted ones never panic at lookup.
package c13

import (
	"fmt"
	"net/http"
	"net/http/httptest"
	"net/url"
	"strings"
	"testing"

	"github.com/gookit/rux"
	"pgregory.net/rapid"

	"verifharness/ev"
	"verifharness/model"
)

func TestMain(m *testing.M) { ev.Main(m) }

func try(f func()) (pv any) {
	defer func() { pv = recover() }()
	f()
	return nil
}

func noop(c *rux.Context) {}

func nMw(n int) []rux.HandlerFunc {
	hs := make([]rux.HandlerFunc, n)
	for i := range hs {
		hs[i] = func(c *rux.Context) { c.Next() }
	}
	return hs
}

// ---------------------------------------------------------------- part A: every listed defect is rejected

// a defect applied to a valid definition; reg performs the registration on a fresh router.
type defect struct {
	class string
	text  string
	reg   func(r *rux.Router)
}

var badMethodTokens = []string{"DEL", "GE", "G", "GET,POST", "GETS", "POS", "OPTION", "PATCHX", "HEA", "GET POST", "CONNECT,", ",GET", "TRAC", "PURGE", "get,post", "É", "GET\x00"}
var capturing = []string{`(\d+)`, `(a|b)`, `(?:x)(y)`, `\d+(a)?`, `(?P<n>\d+)`, `x(?:y)(z)`, `((?:a))`, `(?i)(a)`}
var uncompilable = []string{`[a-`, `*`, `a{2,1}`, `(?:a`, `a)`, `\`, `(?<n`, `[[:foo:]]`, `a**`}

func genDefect(t *rapid.T) defect {
	p := model.GenPattern(t, model.GenCfg{MaxSegs: 3})
	methods := model.GenMethods(t)
	path := p.String()
	switch rapid.IntRange(0, 7).Draw(t, "defect") {
	case 0:
		style := rapid.IntRange(0, 2).Draw(t, "style")
		return defect{"nil-handler", fmt.Sprintf("nil handler (style %d) %v %s", style, methods, path), func(r *rux.Router) {
			switch style {
			case 0:
				r.Add(path, nil, methods...)
			case 1:
				r.GET(path, nil)
			default:
				rux.NewNamedRoute("n", path, nil, methods...).AttachTo(r)
			}
		}}
	case 1:
		blanks := rapid.SliceOfN(rapid.SampledFrom([]string{"", " ", "\t", "  "}), 1, 3).Draw(t, "blanks")
		observed := rapid.Bool().Draw(t, "preparedAndLookedAtFirst")
		return defect{"empty-methods", fmt.Sprintf("methods %q %s (prepared route, read first: %v)", blanks, path, observed), func(r *rux.Router) {
			if observed {
				// the application builds the route, prints / inspects it (read-only API) and only then attaches it
				rt := rux.NewRoute(path, noop, blanks...)
				model.ObserveRoute(rt)
				rt.AttachTo(r)
				return
			}
			r.Add(path, noop, blanks...)
		}}
	case 2:
		bad := rapid.OneOf(rapid.SampledFrom(badMethodTokens), rapid.StringMatching(`[A-Z]{1,7}`).Filter(func(s string) bool {
			for _, m := range model.Methods {
				if m == s {
					return false
				}
			}
			return true
		})).Draw(t, "badMethod")
		ms := append([]string{}, methods...)
		if len(ms) > 3 {
			ms = ms[:2]
		}
		i := rapid.IntRange(0, len(ms)).Draw(t, "pos")
		ms = append(ms[:i], append([]string{bad}, ms[i:]...)...)
		style := rapid.IntRange(0, 3).Draw(t, "unknownMethodStyle")
		return defect{"unknown-method", fmt.Sprintf("methods %q %s (style %d)", ms, path, style), func(r *rux.Router) {
			switch style {
			case 1:
				// a prepared route; the caller reuses the slice it passed (now it holds valid names only) before attaching
				own := append([]string(nil), ms...)
				rt := rux.NewRoute(path, noop, own...)
				for i := range own {
					own[i] = "GET"
				}
				rt.AttachTo(r)
			case 2:
				// rejected once, rejected again: the same route value offered to a second router after the first refused it
				rt := rux.NewRoute(path, noop, ms...)
				func() {
					defer func() { _ = recover() }()
					rt.AttachTo(rux.New())
				}()
				rt.AttachTo(r)
			case 3:
				rux.NewNamedRoute("n", path, noop, ms...).AttachTo(r)
			default:
				r.Add(path, noop, ms...)
			}
		}}
	case 3:
		re := rapid.SampledFrom(capturing).Draw(t, "re")
		q := withVarRegex(t, p, re)
		return defect{"capturing-group", q, func(r *rux.Router) { r.Add(q, noop, methods...) }}
	case 4:
		re := rapid.SampledFrom(uncompilable).Draw(t, "re")
		q := withVarRegex(t, p, re)
		return defect{"uncompilable-regex", q, func(r *rux.Router) { r.Add(q, noop, methods...) }}
	case 5:
		opt := rapid.SampledFrom([]string{"[/b]", "[/{o}]", "[.html]", "[/b[/c]]"}).Draw(t, "opt")
		more := rapid.SampledFrom([]string{"/c", "c", "/{m}", "[x]y", "]", "/", "[/c]", "[/{m}]", "[.x]"}).Draw(t, "more")
		base := model.Pattern{Segs: p.Segs}.String()
		if base == "/" {
			base = "/a"
		}
		q := base + opt + more
		strict := more == "/"
		return defect{"optional-not-at-end", q, func(r *rux.Router) {
			if strict { // "[...]/" is only "more pattern" when trailing slashes are significant
				*r = *rux.New(rux.StrictLastSlash)
			}
			r.Add(q, noop, methods...)
		}}
	case 6:
		// (far beyond the limit as well: counts that no longer fit the int8 the cursor is kept in)
		total := rapid.OneOf(rapid.IntRange(63, 80), rapid.IntRange(120, 140), rapid.IntRange(250, 330)).Draw(t, "handlers")
		g := rapid.IntRange(0, total).Draw(t, "groupMw")
		v := rapid.IntRange(0, total-g).Draw(t, "variadicMw")
		u := total - g - v
		inGroupUse := rapid.Bool().Draw(t, "useInsideGroup")
		style := rapid.IntRange(0, 4).Draw(t, "regStyle")
		return defect{"too-many-handlers", fmt.Sprintf("group=%d variadic=%d Route.Use=%d (total %d) useInsideGroup=%v style=%d", g, v, u, total, inGroupUse, style), func(r *rux.Router) {
			body := func() {
				switch style {
				case 0: // middleware attached after the route was added
					rt := r.GET(path, noop, nMw(v)...)
					rt.Use(nMw(u)...)
				case 1: // a prepared route: middleware attached before it meets the group
					rt := rux.NewRoute(path, noop, "GET")
					rt.Use(nMw(v)...)
					rt.Use(nMw(u)...)
					rt.AttachTo(r)
				case 2:
					rt := rux.NewNamedRoute("n", path, noop, "GET").Use(nMw(v + u)...)
					r.AddRoute(rt)
				case 4: // a resource whose controller's Uses() brings the per-action middleware
					r.Resource("/res", &usesCtl{u}, nMw(v)...)
				default:
					r.Any(path, noop, nMw(v+u)...)
				}
			}
			switch {
			case g == 0:
				body()
			case inGroupUse:
				r.Group("/g", func() { r.Use(nMw(g)...); body() })
			default:
				r.Group("/g", body, nMw(g)...)
			}
		}}
	default:
		opt := rapid.SampledFrom([]string{"strict", "caching", "405", "fallback", "encoded", "intercept", "maxcaches"}).Draw(t, "opt")
		return defect{"options-after-route", "WithOptions(" + opt + ") after " + path, func(r *rux.Router) {
			r.Add(path, noop, methods...)
			o := map[string]func(*rux.Router){"strict": rux.StrictLastSlash, "caching": rux.EnableCaching, "405": rux.HandleMethodNotAllowed,
				"fallback": rux.HandleFallbackRoute, "encoded": rux.UseEncodedPath, "intercept": rux.InterceptAll("/x"), "maxcaches": rux.MaxNumCaches(3)}[opt]
			r.WithOptions(o)
		}}
	}
}

// withVarRegex returns the pattern text with a variable carrying the given regex (replacing one or appended).
func withVarRegex(t *rapid.T, p model.Pattern, re string) string {
	vs := p.Vars()
	if len(vs) == 0 {
		base := p.String()
		if p.Opt != nil || base == "/" {
			base = "/a"
		}
		return base + "/{bad:" + re + "}"
	}
	v := vs[rapid.IntRange(0, len(vs)-1).Draw(t, "whichVar")]
	v.Re = re
	return p.String()
}

func propReject(t *rapid.T) {
	ev.Case()
	d := genDefect(t)
	ev.Eval()
	ev.Class("defect:" + d.class)
	r := rux.New()
	if pv := try(func() { d.reg(r) }); pv == nil {
		t.Fatalf("invalid definition accepted (%s): %s", d.class, d.text)
	}
	ev.NonTrivial(d.class+"|"+d.text, func() string { return d.class + ": " + d.text })
}

func TestPropReject(t *testing.T) { rapid.Check(t, propReject) }

// ---------------------------------------------------------------- part B: accepted definitions never panic at lookup

var hostile = []string{"", " ", "   ", "/", "//", "{", "}", "[", "]", "]]", "[[", "{a", "a}", "{}", "{a:}", "{:a}", "{a:(}", "{a:(?:x)(y)}", "{a:(x)}",
	"/{a}(b)", "/{a}[", "/[{a}", "/{a}]", "/a[/b]/c", "/{a}/{a}", "/{a}{b}", "/\xff", "/\x00", "/a b", "/{a:.*}", "/{all}", "/[{all}]", "/*", "*", "/a/*",
	"/{a:[^/]+}/x", "/{a:\\d{2,3}}", "/{a:[}]}", "/{id}[.{ext}]", "/a.b/{c}", "/(a)/{b}", "/a|b/{c}", "/a/{b:x|y}", "/^a$/{b}", "/a+/{b}", "/{a}?", "/{a}*"}

var patGen = rapid.OneOf(
	rapid.SampledFrom(hostile),
	rapid.StringMatching(`/?[a-b{}\[\]():.*+?|\\/ -]{0,10}`),
	rapid.Custom(func(t *rapid.T) string { return model.GenPattern(t, model.GenCfg{RichLits: true}).String() }),
	rapid.Custom(func(t *rapid.T) string {
		s := []rune(model.GenPattern(t, model.GenCfg{}).String())
		i := rapid.IntRange(0, len(s)).Draw(t, "pos")
		c := rapid.SampledFrom([]rune("{}[]()/\\.*?:| ")).Draw(t, "c")
		return string(s[:i]) + string(c) + string(s[i:])
	}),
	rapid.String(),
)

var methodGen = rapid.OneOf(
	rapid.SampledFrom(model.Methods),
	rapid.SampledFrom([]string{"get", " post ", "", " ", "PURGE", "DEL", "GET,POST", "GET/", "G E T", "\x00", "\xff"}),
	rapid.StringMatching(`[A-Za-z,/ ]{0,6}`),
)

var reqPathGen = rapid.OneOf(
	rapid.SampledFrom([]string{"", " ", "   ", "\t", "/", "//", "/a", "/a/b", "/a/b/c", "a", "/xy", "/a/xy", "/\xff", "/\x00", "/a/", "/ ", "/*", "/a.b/c"}),
	rapid.StringMatching(`[/ab.xy -]{0,8}`),
	rapid.String(),
)

func genOptions(t *rapid.T) ([]func(*rux.Router), string) {
	var opts []func(*rux.Router)
	var names []string
	add := func(name string, o func(*rux.Router)) {
		if rapid.Bool().Draw(t, "opt:"+name) {
			opts = append(opts, o)
			names = append(names, name)
		}
	}
	add("strict", rux.StrictLastSlash)
	add("405", rux.HandleMethodNotAllowed)
	add("fallback", rux.HandleFallbackRoute)
	add("encoded", rux.UseEncodedPath)
	add("caching", rux.EnableCaching)
	if rapid.Bool().Draw(t, "opt:cachingN") {
		n := rapid.SampledFrom([]int{0, 1, 2, 1000}).Draw(t, "cacheN")
		opts = append(opts, rux.CachingWithNum(uint16(n)))
		names = append(names, fmt.Sprintf("cachingWithNum(%d)", n))
	}
	if rapid.IntRange(0, 5).Draw(t, "opt:intercept") == 0 {
		p := reqPathGen.Draw(t, "interceptTo")
		opts = append(opts, rux.InterceptAll(p))
		names = append(names, fmt.Sprintf("intercept(%q)", p))
	}
	return opts, strings.Join(names, ",")
}

type regAttempt struct {
	path    string
	methods []string
	ok      bool
}

// lookups runs Match and ServeHTTP under recover.
func lookup(r *rux.Router, method, path string) string {
	if pv := try(func() { r.Match(method, path) }); pv != nil {
		return fmt.Sprintf("Match(%q,%q) panicked: %v", method, path, pv)
	}
	if pv := try(func() {
		r.ServeHTTP(httptest.NewRecorder(), &http.Request{Method: method, URL: &url.URL{Path: path}, Header: http.Header{}})
	}); pv != nil {
		return fmt.Sprintf("ServeHTTP(%q,%q) panicked: %v", method, path, pv)
	}
	return ""
}

func propTotal(t *rapid.T) {
	ev.Case()
	opts, optText := genOptions(t)
	var r *rux.Router
	switch rapid.IntRange(0, 3).Draw(t, "optionStyle") {
	case 0: // options given to an already built router (allowed as long as no route exists)
		r = rux.New()
		r.WithOptions(opts...)
		optText = "WithOptions:" + optText
	case 1: // one by one
		r = rux.New()
		for _, o := range opts {
			r.WithOptions(o)
		}
		optText = "WithOptions(1 by 1):" + optText
	default:
		r = rux.New(opts...)
	}
	nreg := rapid.IntRange(0, 4).Draw(t, "nreg")
	var regs []regAttempt
	accepted := 0
	var dyn []model.Pattern
	for i := 0; i < nreg; i++ {
		a := regAttempt{path: patGen.Draw(t, "pattern")}
		if rapid.IntRange(0, 3).Draw(t, "validMethods") > 0 {
			a.methods = model.GenMethods(t)
		} else {
			a.methods = rapid.SliceOfN(methodGen, 0, 3).Draw(t, "methods")
		}
		a.ok = try(func() { r.Add(a.path, noop, a.methods...) }) == nil
		if a.ok {
			accepted++
			if p, ok := model.Parse(strings.TrimSpace(a.path)); ok && !p.IsStatic() {
				dyn = append(dyn, p)
			}
		}
		regs = append(regs, a)
	}
	nl := rapid.IntRange(1, 20).Draw(t, "nlookups")
	matchedDynamic := false
	for i := 0; i < nl; i++ {
		method := methodGen.Draw(t, "method")
		var path string
		if len(dyn) > 0 && rapid.Bool().Draw(t, "constructive") {
			path, _, _ = model.GenMatching(t, dyn[rapid.IntRange(0, len(dyn)-1).Draw(t, "which")])
			method = "GET"
		} else {
			path = reqPathGen.Draw(t, "path")
		}
		ev.Eval()
		if msg := lookup(r, method, path); msg != "" {
			t.Fatalf("%s\n options: %s\n registrations: %+v", msg, optText, regs)
		}
		if rt, _, _ := r.Match(method, path); rt != nil && strings.ContainsAny(rt.Path(), "{[") {
			matchedDynamic = true
		}
	}
	switch {
	case accepted == 0:
		ev.Class("router:no-routes")
		if strings.Contains(optText, "caching") {
			ev.Class("router:no-routes+caching")
			ev.NonTrivial("noroutes|"+optText+fmt.Sprint(regs), func() string { return fmt.Sprintf("no accepted route, options %s, attempts %+v", optText, regs) })
		}
	case matchedDynamic:
		ev.Class("router:accepted-dynamic-route-matched")
		ev.NonTrivial(optText+fmt.Sprint(regs), func() string { return fmt.Sprintf("options %s registrations %+v", optText, regs) })
	default:
		ev.Class("router:accepted-routes")
	}
}

func TestPropTotal(t *testing.T) { rapid.Check(t, propTotal) }

// usesCtl is a resource controller with one action and n per-action middleware for it.
type usesCtl struct{ n int }

func (c *usesCtl) Index(ctx *rux.Context) {}
func (c *usesCtl) Uses() map[string][]rux.HandlerFunc {
	return map[string][]rux.HandlerFunc{"Index": nMw(c.n)}
}
