// C16 — Resource registers exactly the documented REST table for the controller.
package c16

import (
	"fmt"
	"net/http"
	"net/http/httptest"
	"net/url"
	"sort"
	"strings"
	"testing"

	"github.com/gookit/rux"
	"pgregory.net/rapid"

	"verifharness/ev"
	"verifharness/model"
)

func TestMain(m *testing.M) { ev.Main(m) }

var actions = []string{"Index", "Create", "Store", "Show", "Edit", "Update", "Delete"}

// the documented table: action -> methods, path below the resource
var table = map[string]struct {
	methods []string
	path    string
}{
	"Index":  {[]string{"GET"}, ""},
	"Create": {[]string{"GET"}, "/create"},
	"Store":  {[]string{"POST"}, ""},
	"Show":   {[]string{"GET"}, "/{id}"},
	"Edit":   {[]string{"GET"}, "/{id}/edit"},
	"Update": {[]string{"PUT", "PATCH"}, "/{id}"},
	"Delete": {[]string{"DELETE"}, "/{id}"},
}

type base struct {
	uses map[string][]rux.HandlerFunc
	inst int // every registration uses a new controller instance: the routes must be bound to THAT instance
}

// curInst is the instance number of the controller handed to the most recent Resource call (register).
var curInst int

func (b base) act(ctx *rux.Context, name string) {
	ctx.WriteString(fmt.Sprintf("[%s id=%s inst=%d]", name, ctx.Param("id"), b.inst))
}

func mw(tag string) rux.HandlerFunc {
	return func(c *rux.Context) { c.WriteString("<" + tag + ">") }
}

type config struct {
	bits     int
	uses     bool
	basePath string          // ends in '/'
	usesFor  map[string]bool // actions that get middleware from Uses() (may name unimplemented actions)
	groupMw  int
	spare    int    // spare capacity of the middleware slice handed to Resource
	outer    string // non-empty: Resource is called inside Group(outer, ...)
	outerMw  int    // middleware given to the outer group
	outerUse int    // Use calls inside the outer group before Resource (the group chain is then built by append)
	strict   bool   // StrictLastSlash: only the clauses that do not depend on the documented paths are asserted
	cacheCap int    // > 0: route caching with this (small) capacity - the table must not depend on what was requested before
}

func (c config) has(a string) bool {
	for i, x := range actions {
		if x == a {
			return c.bits>>i&1 == 1
		}
	}
	return false
}

func (c config) String() string {
	var as []string
	for _, a := range actions {
		if c.has(a) {
			as = append(as, a)
		}
	}
	var us []string
	for a := range c.usesFor {
		us = append(us, a)
	}
	sort.Strings(us)
	return fmt.Sprintf("actions=%v Uses()=%v(for %v) base=%q groupMw=%d outer=%q(mw=%d,use=%d) strict=%v cache=%d", as, c.uses, us, c.basePath, c.groupMw, c.outer, c.outerMw, c.outerUse, c.strict, c.cacheCap)
}

func (c config) resName() string {
	if c.uses {
		return fmt.Sprintf("u%03d", c.bits)
	}
	return fmt.Sprintf("c%03d", c.bits)
}

func register(c config) *rux.Router {
	curInst++
	b := base{inst: curInst}
	if c.uses {
		b.uses = map[string][]rux.HandlerFunc{}
		for a := range c.usesFor {
			b.uses[a] = append(make([]rux.HandlerFunc, 0, 3), mw("uses:"+a)) // (with spare capacity)
		}
	}
	var opts []func(*rux.Router)
	if c.strict {
		opts = append(opts, rux.StrictLastSlash)
	}
	if c.cacheCap > 0 {
		opts = append(opts, rux.CachingWithNum(uint16(c.cacheCap)))
	}
	r := rux.New(opts...)
	gm := make([]rux.HandlerFunc, 0, c.groupMw+c.spare) // the caller's slice may have spare capacity
	for i := 0; i < c.groupMw; i++ {
		gm = append(gm, mw(fmt.Sprintf("group%d", i)))
	}
	defer func() {
		// registration is over: the controller rebuilds its Uses() table in place, the caller reuses its middleware slice
		stray := func(c *rux.Context) { c.WriteString("<A-HANDLER-FROM-A-SLICE-ITS-OWNER-REUSED>") }
		for _, hs := range b.uses {
			hs = hs[:cap(hs)]
			for i := range hs {
				hs[i] = stray
			}
		}
		gm = gm[:cap(gm)]
		for i := range gm {
			gm[i] = stray
		}
	}()
	// before the resource is registered the application looks up names and lists routes (read-only), and once passes
	// something that is no controller (refused; it recovers)
	pre := func() {
		if c.bits%2 == 0 {
			model.Observe(r)
			_ = r.GetRoute(c.resName() + "_index")
		}
		if c.bits%3 == 0 {
			notAStruct := "x"
			model.TryCall(func() { r.Resource(c.basePath, &notAStruct, gm...) })
			model.TryCall(func() { r.Resource(c.basePath, map[string]int{}, gm...) })
		}
	}
	if c.outer == "" {
		pre()
		r.Resource(c.basePath, newController(c.bits, c.uses, b), gm...)
		return r
	}
	var om []rux.HandlerFunc
	for i := 0; i < c.outerMw; i++ {
		om = append(om, mw(fmt.Sprintf("outer%d", i)))
	}
	r.Group(c.outer, func() {
		for i := 0; i < c.outerUse; i++ {
			r.Use(mw(fmt.Sprintf("use%d", i)))
		}
		pre()
		r.Resource(c.basePath, newController(c.bits, c.uses, b), gm...)
	}, om...)
	return r
}

func (c config) resPath() string {
	return model.Normalize(model.Normalize(c.outer, false)+model.Normalize(c.basePath+c.resName(), false), false)
}

// expected table as a model.Table (so that "GET /res/create -> create, else show" follows from C01's semantics)
func expected(c config) (*model.Table, []string) {
	res := c.resPath()
	tb := &model.Table{}
	var acts []string
	for _, a := range actions {
		if !c.has(a) {
			continue
		}
		row := table[a]
		tb.Routes = append(tb.Routes, model.RouteDef{P: model.MustParse(res + row.path), Methods: row.methods, Idx: len(tb.Routes)})
		acts = append(acts, a)
	}
	return tb, acts
}

func checkStructure(r *rux.Router, c config) string {
	tb, acts := expected(c)
	want := map[string]string{}
	for i, a := range acts {
		want[c.resName()+"_"+strings.ToLower(a)] = strings.Join(tb.Routes[i].Methods, ",") + " " + tb.Routes[i].P.String()
	}
	got := map[string]string{}
	for name, rt := range r.NamedRoutes() {
		got[name] = strings.Join(rt.Methods(), ",") + " " + rt.Path()
	}
	if fmt.Sprint(got) != fmt.Sprint(want) {
		return fmt.Sprintf("named routes %v, documented table gives %v", got, want)
	}
	// nothing else: Routes() lists a route once per method
	n := 0
	for _, ri := range r.Routes() {
		if _, ok := want[ri.Name]; !ok {
			return fmt.Sprintf("extra route %+v", ri)
		}
		n++
	}
	wantN := 0
	for _, d := range tb.Routes {
		wantN += len(d.Methods)
	}
	if n != wantN {
		return fmt.Sprintf("Routes() has %d (route, method) entries, table gives %d", n, wantN)
	}
	return ""
}

func checkProbe(r *rux.Router, c config, method, path string) string {
	tb, acts := expected(c)
	res := tb.Resolve(method, path)
	rec := httptest.NewRecorder()
	r.ServeHTTP(rec, &http.Request{Method: method, URL: &url.URL{Path: path}, Header: http.Header{}, Proto: "HTTP/1.1"})
	if res.Route < 0 {
		if rec.Code != 404 {
			return fmt.Sprintf("%s %q: served %d %q, the table has no row for it", method, path, rec.Code, rec.Body.String())
		}
		return ""
	}
	a := acts[res.Route]
	id := ""
	if sm := tb.Routes[res.Route].P.Regex().FindStringSubmatch(res.Norm); len(sm) > 1 {
		id = sm[1]
	}
	want := ""
	for i := 0; i < c.outerMw && c.outer != ""; i++ {
		want += fmt.Sprintf("<outer%d>", i)
	}
	for i := 0; i < c.outerUse && c.outer != ""; i++ {
		want += fmt.Sprintf("<use%d>", i)
	}
	for i := 0; i < c.groupMw; i++ {
		want += fmt.Sprintf("<group%d>", i)
	}
	if c.uses && c.usesFor[a] {
		want += "<uses:" + a + ">"
	}
	want += fmt.Sprintf("[%s id=%s inst=%d]", a, id, curInst)
	if rec.Code != 200 || rec.Body.String() != want {
		return fmt.Sprintf("%s %q: served %d %q, documented table says %q", method, path, rec.Code, rec.Body.String(), want)
	}
	return ""
}

func probePaths(c config, id string) []string {
	res := c.resPath()
	return []string{res, res + "/", res + "/create", res + "/" + id, res + "/" + id + "/edit", res + "/" + id + "/x", res + "/create/edit",
		res + "/edit", res + "/" + id + "/edit/x", model.Normalize(c.basePath+"other", false), res + "x", "/"}
}

// Exhaustive over the 256 controller types, fixed probes (regression tier).
func TestRegressEnumerate(t *testing.T) {
	for _, uses := range []bool{false, true} {
		for bits := 0; bits < 128; bits++ {
			c := config{bits: bits, uses: uses, basePath: "/", usesFor: map[string]bool{"Show": true, "Delete": true, "Index": true}}
			for rep := 0; rep < 2; rep++ { // map iteration order inside Resource differs
				r := register(c)
				if msg := checkStructure(r, c); msg != "" {
					t.Fatalf("%s: %s", c, msg)
				}
				for _, p := range probePaths(c, "42") {
					for _, m := range model.Methods {
						ev.Eval()
						if msg := checkProbe(r, c, m, p); msg != "" {
							t.Fatalf("%s: %s", c, msg)
						}
					}
				}
			}
			if bits != 0 && bits != 127 {
				ev.NonTrivial(c.String(), func() string { return c.String() })
			}
		}
	}
	ev.Note("exhaustive", "all 128 action subsets x with/without Uses() were registered twice and probed with 12 paths x 9 methods")
	// rejected controllers
	type s struct{}
	n := 5
	for i, bad := range []any{s{}, &n, new(string), new(*s), &[]int{1}, []s{{}}, [1]s{}, map[string]s{}, make(chan s), sliceCtl{}, mapCtl{}, C001{}, func() {}, "x", 7} {
		func() {
			defer func() {
				if recover() == nil {
					t.Errorf("controller #%d of type %T accepted", i, bad)
				}
			}()
			rux.New().Resource("/", bad)
		}()
	}
}

// named non-struct types that carry action methods: still not "pointer to struct"
type sliceCtl []base

func (sliceCtl) Index(ctx *rux.Context) { ctx.WriteString("index") }

type mapCtl map[string]base

func (mapCtl) Show(ctx *rux.Context) { ctx.WriteString("show") }

func prop(t *rapid.T) {
	ev.Case()
	c := config{bits: rapid.IntRange(0, 127).Draw(t, "actions"), uses: rapid.Bool().Draw(t, "hasUses"),
		basePath: rapid.SampledFrom([]string{"/", "/api/", "/api/v1/", "api/", "/Admin/V1/", "/API/", ""}).Draw(t, "base"), groupMw: rapid.IntRange(0, 3).Draw(t, "groupMw"),
		spare: rapid.IntRange(0, 3).Draw(t, "spareCap"), usesFor: map[string]bool{}}
	if c.uses {
		for _, a := range rapid.SliceOfNDistinct(rapid.SampledFrom(append(append([]string{}, actions...), "Nope", "index")), 0, 4, rapid.ID[string]).Draw(t, "usesFor") {
			c.usesFor[a] = true
		}
	}
	if rapid.IntRange(0, 2).Draw(t, "insideGroup") == 0 {
		c.outer = rapid.SampledFrom([]string{"/out", "/v1/x", "g", "/", " / "}).Draw(t, "outer")
		c.outerMw = rapid.IntRange(0, 2).Draw(t, "outerMw")
		c.outerUse = rapid.IntRange(0, 3).Draw(t, "outerUse")
	}
	c.strict = rapid.IntRange(0, 5).Draw(t, "strict") == 0
	if rapid.IntRange(0, 2).Draw(t, "caching") == 0 {
		c.cacheCap = rapid.IntRange(1, 2).Draw(t, "cacheCap")
	}
	id := rapid.OneOf(rapid.StringMatching(`[a-z0-9]{1,4}`), rapid.SampledFrom([]string{"create", "edit", "42", "a.b", "%", "é"})).Draw(t, "id")
	nuses := 0
	for _, a := range actions {
		if c.usesFor[a] && c.has(a) {
			nuses++
		}
	}
	if c.strict {
		// the table is documented for the default options; under StrictLastSlash only the clauses that do not
		// depend on the exact paths are asserted: which names exist, and "GET /res/create is never served by show"
		ev.Class("strict-mode(names + create-never-show only)")
		for rep := 0; rep < 2; rep++ {
			r := register(c)
			_, acts := expected(c)
			if got := len(r.NamedRoutes()); got != len(acts) {
				t.Fatalf("%s: %d named routes, %d actions implemented", c, got, len(acts))
			}
			for _, p := range []string{c.resPath() + "/create", c.resPath() + "/create/"} {
				rec := httptest.NewRecorder()
				r.ServeHTTP(rec, &http.Request{Method: "GET", URL: &url.URL{Path: p}, Header: http.Header{}})
				ev.Eval()
				if c.has("Create") && strings.Contains(rec.Body.String(), "[Show ") {
					t.Fatalf("%s: GET %q was served by show: %q", c, p, rec.Body.String())
				}
			}
		}
		return
	}
	for rep := 0; rep < 3; rep++ {
		r := register(c)
		if msg := checkStructure(r, c); msg != "" {
			t.Fatalf("%s: %s", c, msg)
		}
		paths := probePaths(c, id)
		if c.cacheCap > 0 {
			// other ids as well: more distinct dynamic paths than the cache holds, and revisits
			paths = append(paths, c.resPath()+"/7", c.resPath()+"/8", c.resPath()+"/7/edit")
		}
		lo, hi := 2, 8
		if c.cacheCap > 0 {
			lo, hi = 5, 12
		}
		for i, k := 0, rapid.IntRange(lo, hi).Draw(t, "nprobes"); i < k; i++ {
			p := rapid.SampledFrom(paths).Draw(t, "path")
			m := rapid.SampledFrom(model.Methods).Draw(t, "method")
			ev.Eval()
			if msg := checkProbe(r, c, m, p); msg != "" {
				t.Fatalf("%s: %s", c, msg)
			}
		}
	}
	if (c.bits != 0 && c.bits != 127) || nuses >= 2 {
		if nuses >= 2 {
			ev.Class("uses-for->=2-actions")
		}
		if c.outer != "" && c.outerUse+c.outerMw >= 2 {
			ev.Class("inside-group-with-appended-chain")
		}
		ev.NonTrivial(c.String()+id, func() string { return c.String() + " id=" + id })
	}
}

func TestProp(t *testing.T) { rapid.Check(t, prop) }

// wrongSig implements six actions; its Create has the wrong signature and is therefore no action.
type wrongSig struct{ base }

func (c *wrongSig) Index(ctx *rux.Context)  { c.act(ctx, "Index") }
func (c *wrongSig) Create() string          { return "not an action: wrong signature" }
func (c *wrongSig) Store(ctx *rux.Context)  { c.act(ctx, "Store") }
func (c *wrongSig) Show(ctx *rux.Context)   { c.act(ctx, "Show") }
func (c *wrongSig) Edit(ctx *rux.Context)   { c.act(ctx, "Edit") }
func (c *wrongSig) Update(ctx *rux.Context) { c.act(ctx, "Update") }
func (c *wrongSig) Delete(ctx *rux.Context) { c.act(ctx, "Delete") }

// TestRegressWrongSignature: a method that merely has an action's name is skipped, and ONLY that one - whatever the
// order in which Resource walks its action table (it is a map: repeated).
func TestRegressWrongSignature(t *testing.T) {
	for rep := 0; rep < 40; rep++ {
		r := rux.New()
		r.Resource("/", &wrongSig{})
		names := []string{}
		for n := range r.NamedRoutes() {
			names = append(names, n)
		}
		sort.Strings(names)
		ev.Eval()
		if got, want := strings.Join(names, ","), "wrongsig_delete,wrongsig_edit,wrongsig_index,wrongsig_show,wrongsig_store,wrongsig_update"; got != want {
			t.Fatalf("registration #%d: named routes %s, want %s", rep, got, want)
		}
		rec := httptest.NewRecorder()
		r.ServeHTTP(rec, httptest.NewRequest("GET", "/wrongsig/create", nil))
		if !strings.Contains(rec.Body.String(), "[Show id=create") {
			t.Fatalf("registration #%d: GET /wrongsig/create answered %d %q, the table has show with id=create", rep, rec.Code, rec.Body.String())
		}
	}
}

// propTwoResources: the same controller type registered as two resources under two base paths (two API versions, each
// with its own controller instance).  Every Resource call registers its own table: each base serves exactly the
// documented rows, bound to the instance given for THAT base, with that instance's Uses() middleware.
func propTwoResources(t *rapid.T) {
	ev.Case()
	bits := rapid.IntRange(1, 127).Draw(t, "actions")
	uses := rapid.Bool().Draw(t, "hasUses")
	bases := rapid.SliceOfNDistinct(rapid.SampledFrom([]string{"/v1/", "/v2/", "/api/v3/", "/Admin/"}), 2, 2, rapid.ID[string]).Draw(t, "bases")
	usesFor := map[string]bool{}
	if uses {
		for _, a := range rapid.SliceOfNDistinct(rapid.SampledFrom(actions), 0, 4, rapid.ID[string]).Draw(t, "usesFor") {
			usesFor[a] = true
		}
	}
	var opts []func(*rux.Router)
	if rapid.IntRange(0, 2).Draw(t, "caching") == 0 {
		opts = append(opts, rux.CachingWithNum(uint16(rapid.IntRange(1, 2).Draw(t, "cacheCap"))))
	}
	encoded := rapid.IntRange(0, 2).Draw(t, "useEncodedPath") == 0
	if encoded {
		opts = append(opts, rux.UseEncodedPath)
	}
	r := rux.New(opts...)
	var cfgs []config
	var insts []int
	for _, bp := range bases {
		c := config{bits: bits, uses: uses, basePath: bp, usesFor: usesFor}
		curInst++
		b := base{inst: curInst}
		if uses {
			b.uses = map[string][]rux.HandlerFunc{}
			for a := range usesFor {
				b.uses[a] = []rux.HandlerFunc{mw("uses:" + a)}
			}
		}
		r.Resource(bp, newController(bits, uses, b))
		cfgs, insts = append(cfgs, c), append(insts, curInst)
	}
	last := curInst
	defer func() { curInst = last }()
	id := rapid.StringMatching(`[a-z0-9]{1,4}`).Draw(t, "id")
	for round := 0; round < 2; round++ {
		for i, c := range cfgs {
			curInst = insts[i] // the instance checkProbe expects behind this base
			for _, p := range probePaths(c, id) {
				for _, m := range model.Methods {
					ev.Eval()
					if msg := checkProbe(r, c, m, p); msg != "" {
						t.Fatalf("two resources of one controller type under %v; the one under %q: %s", bases, c.basePath, msg)
					}
				}
			}
		}
	}
	// ids that need escaping, on the wire and behind a mount (http.StripPrefix, RequestURI as a server sets it): the
	// resource answers the mounted request exactly as the direct one, with and without UseEncodedPath
	for i, c := range cfgs {
		curInst = insts[i]
		for _, tail := range []string{"/a%2Fb", "/a%20b/edit", "/caf%C3%A9"} {
			raw := c.resPath() + tail
			u, err := url.ParseRequestURI(raw)
			if err != nil {
				continue
			}
			for _, m := range []string{"GET", "PUT", "DELETE"} {
				ev.Eval()
				direct := httptest.NewRecorder()
				r.ServeHTTP(direct, &http.Request{Method: m, URL: u, RequestURI: raw, Header: http.Header{}, Proto: "HTTP/1.1"})
				pu, _ := url.ParseRequestURI("/pre" + raw)
				mounted := httptest.NewRecorder()
				http.StripPrefix("/pre", r).ServeHTTP(mounted, &http.Request{Method: m, URL: pu, RequestURI: "/pre" + raw, Header: http.Header{}, Proto: "HTTP/1.1"})
				if direct.Code != mounted.Code || direct.Body.String() != mounted.Body.String() {
					t.Fatalf("%s %s (UseEncodedPath=%v): directly %d %q, mounted behind http.StripPrefix(/pre) %d %q", m, raw, encoded, direct.Code, direct.Body.String(), mounted.Code, mounted.Body.String())
				}
			}
		}
	}
	ev.Class("two-resources-of-one-controller-type")
	ev.NonTrivial(fmt.Sprint(bits, uses, bases, usesFor), func() string {
		return fmt.Sprintf("controller c%03d uses=%v under %v", bits, uses, bases)
	})
}

func TestPropTwoResources(t *testing.T) { rapid.Check(t, propTwoResources) }
