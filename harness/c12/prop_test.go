// C12 — groups add prefix and middleware to their own routes and leave no residue.
package c12

import (
	"fmt"
	"github.com/gookit/rux"
	"net/http/httptest"
	"os"
	"path/filepath"
	"sort"
	"strings"
	"sync"
	"testing"

	"pgregory.net/rapid"

	"verifharness/chain"
	"verifharness/ev"
	"verifharness/model"
)

func TestMain(m *testing.M) {
	code := m.Run()
	ev.Dump()
	if staticDir != "" {
		_ = os.RemoveAll(staticDir)
	}
	os.Exit(code)
}

type groupRef struct {
	parent *[]*chain.Stmt
	idx    int
}

func collectGroups(body *[]*chain.Stmt, out *[]groupRef) {
	for i, s := range *body {
		if s.Kind == "group" || s.Kind == "controller" || s.Kind == "resource" {
			*out = append(*out, groupRef{body, i})
			if s.Kind != "resource" {
				collectGroups(&s.Body, out)
			}
		}
	}
}

func routeStmts(ss []*chain.Stmt, out *[]*chain.Stmt) {
	for _, s := range ss {
		if s.Kind == "route" {
			*out = append(*out, s)
		}
		routeStmts(s.Body, out)
	}
}

func shape(prog *chain.Program) (siblings, useBetween, routeAfterGroup bool) {
	var walk func(ss []*chain.Stmt, depth int)
	walk = func(ss []*chain.Stmt, depth int) {
		groups, seenRoute, seenGroup := 0, false, false
		for _, s := range ss {
			switch s.Kind {
			case "group", "controller", "resource":
				groups++
				seenGroup = true
				if s.Kind != "resource" {
					walk(s.Body, depth+1)
				}
			case "route":
				if seenGroup {
					routeAfterGroup = true
				}
				seenRoute = true
			case "use":
				if depth > 0 && seenRoute {
					useBetween = true
				}
			}
		}
		if groups >= 2 {
			siblings = true
		}
	}
	walk(prog.Body, 0)
	return
}

func prop(t *rapid.T) {
	ev.Case()
	w := chain.NewWorld()
	w.Mounted = true // every request is repeated through an http.StripPrefix mount
	opts := model.Options{Strict: rapid.IntRange(0, 3).Draw(t, "strict") == 0}
	cfg := chain.ProgCfg{
		MaxDepth: rapid.IntRange(1, ev.Pick(4, 6)).Draw(t, "maxDepth"), MaxMw: 2, MaxStmts: ev.Pick(4, 5),
		Dynamic: true, EmptyPaths: true, AnyRoutes: true, Controllers: true, RootGroups: true,
		Script: chain.ScriptCfg{Writes: true, Nexts: []int{0, 1, 1, 2}},
	}
	prog := chain.GenProgram(t, w, opts, cfg)
	pm := prog.Model()
	if len(pm.Routes) == 0 {
		t.Skip("no routes")
	}
	r := prog.Apply(w)
	ctx := func() string { return fmt.Sprintf("program:\n%sscripts:\n%s", prog, prog.Scripts()) }
	// (i) structural
	for _, rt := range pm.Routes {
		if rt.Stmt.Route == nil {
			continue
		}
		if got := rt.Stmt.Route.Path(); got != rt.Full {
			t.Fatalf("route registered as %q, concatenated prefixes give %q\n%s", got, rt.Full, ctx())
		}
		if got := len(rt.Stmt.Route.Handlers()); got != len(rt.Chain) {
			t.Fatalf("route %s carries %d middleware, the enclosing groups and the route give %d\n%s", rt.Full, got, len(rt.Chain), ctx())
		}
	}
	// (ii) behavioural: every route, and probes under sibling prefixes / without prefix
	probes := chain.Requests(t, pm, 2)
	firstSegs := map[string]bool{}
	for _, rt := range pm.Routes {
		if f := strings.SplitN(strings.TrimPrefix(rt.Full, "/"), "/", 2); len(f) == 2 {
			firstSegs[f[0]] = true
		}
	}
	for i, rt := range pm.Routes {
		f := strings.SplitN(strings.TrimPrefix(rt.Full, "/"), "/", 2)
		if len(f) < 2 || !pm.Table.Routes[i].P.IsStatic() {
			continue
		}
		probes = append(probes, [2]string{rt.Methods[0], "/" + f[1]}) // un-prefixed
		for _, s := range sortedKeys(firstSegs) {
			if s != f[0] {
				probes = append(probes, [2]string{rt.Methods[0], "/" + s + "/" + f[1]}) // under another prefix
				break
			}
		}
	}
	sib, useBetween, after := shape(prog)
	for _, q := range probes {
		msg, info := chain.CheckRequest(w, r, pm, q[0], q[1])
		if info.Skipped {
			continue
		}
		ev.Eval()
		ev.Class("request:" + info.Res.Kind.String())
		if msg != "" {
			t.Fatalf("%s\n%s", msg, ctx())
		}
	}
	// (iii) residue: delete one group; every route outside it must be registered and behave identically
	var groups []groupRef
	collectGroups(&prog.Body, &groups)
	if len(groups) > 0 {
		prog2 := &chain.Program{Opts: prog.Opts, Body: chain.Clone(prog.Body)}
		var groups2 []groupRef
		collectGroups(&prog2.Body, &groups2)
		g := groups2[rapid.IntRange(0, len(groups2)-1).Draw(t, "deleteGroup")]
		deleted := (*g.parent)[g.idx]
		*g.parent = append(append([]*chain.Stmt{}, (*g.parent)[:g.idx]...), (*g.parent)[g.idx+1:]...)
		chain.Unlink(prog2.Body)
		w2 := chain.NewWorld()
		pm2 := prog2.Model()
		r2 := prog2.Apply(w2)
		// the surviving route statements correspond one to one (same order) to those of the original minus the deleted subtree
		var inDeleted []*chain.Stmt
		routeStmts([]*chain.Stmt{deleted}, &inDeleted)
		gone := map[*chain.Script]bool{}
		for _, s := range inDeleted {
			gone[s.Main] = true
		}
		j := 0
		for i, rt := range pm.Routes {
			if gone[rt.Main] {
				continue
			}
			rt2 := pm2.Routes[j]
			j++
			if rt2.Main != rt.Main {
				t.Fatalf("harness: route correspondence lost")
			}
			if rt.Stmt.Route != nil && rt2.Stmt.Route != nil {
				if a, b := rt.Stmt.Route.Path(), rt2.Stmt.Route.Path(); a != b {
					t.Fatalf("route %s is registered as %q, but as %q when group %q is never there\n%s", rt.Main.Name, a, b, deleted.Prefix, ctx())
				}
				if a, b := len(rt.Stmt.Route.Handlers()), len(rt2.Stmt.Route.Handlers()); a != b {
					t.Fatalf("route %s carries %d middleware, but %d when group %q is never there\n%s", rt.Main.Name, a, b, deleted.Prefix, ctx())
				}
			}
			path, _, _ := model.GenMatching(t, pm.Table.Routes[i].P)
			if !model.Stable(path, opts.Strict) {
				continue
			}
			// only compare when the deleted group does not shadow / un-shadow this request
			c1, _, res1 := pm.Expect(rt.Methods[0], path)
			c2, _, res2 := pm2.Expect(rt.Methods[0], path)
			if res1.Route < 0 || res2.Route < 0 || pm.Routes[res1.Route].Main != pm2.Routes[res2.Route].Main || len(c1) != len(c2) || len(c1) > 62 {
				continue
			}
			st1, st2 := w.NewRequest(rt.Methods[0], path), w2.NewRequest(rt.Methods[0], path)
			o1, o2 := st1.Serve(r), st2.Serve(r2)
			ev.Eval()
			if d := chain.Diff(o1, o2); d != "" {
				t.Fatalf("%s %q behaves differently when group %q (deleted) is never registered:\n%s\n%s", rt.Methods[0], path, deleted.Prefix, d, ctx())
			}
			ev.Class("residue:route-compared-with-program-without-a-group")
		}
	}
	if sib {
		ev.Class("program:sibling-groups")
	}
	if useBetween {
		ev.Class("program:Use-between-routes-of-a-group")
	}
	if after {
		ev.Class("program:route-after-a-group")
	}
	if sib || useBetween || after {
		ev.NonTrivial(prog.String()+prog.Scripts(), func() string { return prog.String() })
	}
}

func TestProp(t *testing.T) { rapid.Check(t, prop) }

func sortedKeys(m map[string]bool) []string {
	var ks []string
	for k := range m {
		ks = append(ks, k)
	}
	sort.Strings(ks)
	return ks
}

// propStaticInGroup: the static-file helpers register routes like any other call - inside Group(prefix, ...) the
// files are reachable exactly under the concatenated prefixes.  (StaticFiles only: in rux, StaticDir and StaticFS
// strip the un-grouped prefix and answer 404 inside a group - that is so on the unchanged tree and outside this
// property, whose subject is where routes are reachable, not what a file server does with the path.)
func propStaticInGroup(t *rapid.T) {
	ev.Case()
	staticOnce.Do(func() {
		base := os.Getenv("VERIF_SANDBOX")
		if base == "" {
			base = os.TempDir()
		}
		_ = os.MkdirAll(base, 0o755)
		staticDir, _ = os.MkdirTemp(base, "c12-static-")
		_ = os.WriteFile(filepath.Join(staticDir, "a.css"), []byte("CSS-A"), 0o644)
		_ = os.MkdirAll(filepath.Join(staticDir, "sub"), 0o755)
		_ = os.WriteFile(filepath.Join(staticDir, "sub", "b.css"), []byte("CSS-B"), 0o644)
	})
	r := rux.New()
	depth := rapid.IntRange(1, 3).Draw(t, "depth")
	prefixes := make([]string, depth)
	full := ""
	for i := range prefixes {
		prefixes[i] = "/" + rapid.StringMatching(`[a-c]{1,2}`).Draw(t, "prefix")
		full += prefixes[i]
	}
	mount := "/" + rapid.SampledFrom([]string{"assets", "s", "static.v1"}).Draw(t, "mount")
	var reg func(i int)
	reg = func(i int) {
		if i == depth {
			r.StaticFiles(mount, staticDir, "css|js")
			return
		}
		r.Group(prefixes[i], func() { reg(i + 1) })
	}
	reg(0)
	method := rapid.SampledFrom([]string{"GET", "HEAD"}).Draw(t, "method")
	for _, f := range []struct{ path, want string }{{"a.css", "CSS-A"}, {"sub/b.css", "CSS-B"}} {
		rec := httptest.NewRecorder()
		r.ServeHTTP(rec, httptest.NewRequest(method, full+mount+"/"+f.path, nil))
		ev.Eval()
		if rec.Code != 200 || (method == "GET" && rec.Body.String() != f.want) {
			t.Fatalf("StaticFiles(%q) inside groups %v: %s %s answered %d %q, want 200 %q", mount, prefixes, method, full+mount+"/"+f.path, rec.Code, rec.Body.String(), f.want)
		}
		// and nowhere else: not without the group prefixes
		rec = httptest.NewRecorder()
		r.ServeHTTP(rec, httptest.NewRequest("GET", mount+"/"+f.path, nil))
		if rec.Code != 404 {
			t.Fatalf("StaticFiles(%q) inside groups %v is also reachable as %s (%d)", mount, prefixes, mount+"/"+f.path, rec.Code)
		}
	}
	ev.Class("static-files-mounted-inside-groups")
	ev.NonTrivial(fmt.Sprint(prefixes, mount, method), func() string { return fmt.Sprintf("StaticFiles(%q) inside groups %v, %s", mount, prefixes, method) })
}

var (
	staticOnce sync.Once
	staticDir  string
)

func TestPropStaticInGroup(t *testing.T) { rapid.Check(t, propStaticInGroup) }
