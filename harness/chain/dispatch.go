package chain

import (
	"context"
	"fmt"
	"net/http"
	"net/url"
	"sort"
	"strings"
	"sync"

	"github.com/gookit/rux"
)

// Hooks are the router-level hooks of a program.
type Hooks struct {
	OnPanic *Script
	OnError *Script
	// Sub predicts a nested request in the model (set by PModel.EnableSub); nil = nested requests disabled
	Sub func(method, path string) string
	// Forward predicts an internal forward of the same context (set by PModel.EnableForward)
	Forward func(m *MCtx, path string)
}

// SubText renders the outcome of a nested request for the parent's trace.
func SubText(out Outcome) string {
	return out.Trace + "\nwriter: " + out.Log + "\nescaped: " + labelOrNil(out.Escaped)
}

func label(v any) string {
	if p, ok := v.(*PanicValue); ok {
		return "PanicValue(" + p.Label + ")"
	}
	return fmt.Sprintf("%T(%v)", v, v)
}

// Outcome of one request, on either side.
type Outcome struct {
	Trace   string
	Log     string // calls received by the underlying writer
	Escaped any    // panic value that left ServeHTTP / the model dispatcher
}

// ModelDispatch predicts one request: the chain runs through the interpreter,
// then the error hook, then the header is committed; a panic goes to the
// panic hook (which is followed by the commit) or escapes.
func ModelDispatch(chain []*Script, hooks Hooks, rec *RecWriter, req *http.Request, ps map[string]string, noAbt bool) (out Outcome, m *MCtx) {
	tr := &Trace{}
	w := &ModelWriter{U: rec}
	m = NewMCtx(chain, w, req, ps, tr)
	m.NoAbt = noAbt
	out.Escaped = ModelRun(m, hooks)
	out.Trace, out.Log = tr.String(), rec.Log()
	return
}

// ModelRun is the protected region of one dispatch (also used for an internal forward, which dispatches the same
// request again on the same writer): chain, error hook, header commit; a panic goes to the panic hook or escapes.
func ModelRun(m *MCtx, hooks Hooks) (escaped any) {
	m.SubFn, m.FwdFn = hooks.Sub, hooks.Forward
	defer func() {
		if v := recover(); v != nil {
			if hooks.OnPanic == nil {
				escaped = v
				return
			}
			m.Set(rux.CTXRecoverResult, v)
			m.Tr.Add("OnPanic recovered=%s", label(v))
			Run(hooks.OnPanic, m, m.Tr)
			m.W.Commit()
		}
	}()
	m.Next()
	if hooks.OnError != nil && m.NErr > 0 {
		m.Tr.Add("OnError errors=%d", m.NErr)
		Run(hooks.OnError, m, m.Tr)
	}
	m.W.Commit()
	return nil
}

// World owns the scripts and the per-request state of the real side.
type World struct {
	mu          sync.Mutex
	nextID      int
	reqs        map[string]*ReqState
	nreq        int
	Sched       *Sched              // non-nil: handlers park at OpYield
	Router      *rux.Router         // set by Program.Apply: the router nested requests go to
	Subs        bool                // nested requests (OpSub) enabled
	CancelEvery int                 // > 0: every n-th request arrives with an already cancelled context
	Mounted     bool                // CheckRequest repeats every request behind http.StripPrefix("/pre/", router)
	lent        [][]rux.HandlerFunc // handler slices handed to registration calls (see reuseLentSlices)
	lateCopies  []*rux.Context      // copies kept by finished requests (their jobs go on reporting, see Handler)
}

// ReqState is the real-side state of one in-flight request.
type ReqState struct {
	ID       string
	Tr       *Trace
	Rec      *RecWriter
	NoAbt    bool
	Req      *http.Request
	Ctx      *rux.Context // the context the first handler saw (pointer identity = pool reuse)
	First    func(c *rux.Context)
	world    *World // the world this request belongs to
	jobsDone bool   // the background jobs of the kept copies have recorded their results

	Nested bool // this is a nested request issued by a handler

	Recovered  any // what the OnPanic hook found under CTXRecoverResult
	NRecovered int // how often the OnPanic hook ran

	cmu      sync.Mutex
	Copies   []*rux.Context   // contexts obtained by c.Copy() and kept beyond the request
	Kept     []map[string]any // maps obtained from c.Data() and kept beyond the request
	keptBase []string
	copyBase []string // what each copy held when its request ended
}

// AddCopy records a copy taken by a handler.
func (st *ReqState) AddCopy(c *rux.Context) {
	st.cmu.Lock()
	st.Copies = append(st.Copies, c)
	st.cmu.Unlock()
}

// CopyText renders what a copied context holds (user data and parameters).
func CopyText(c *rux.Context) string {
	errs := make([]string, len(c.Errors))
	for i, e := range c.Errors {
		errs[i] = e.Error()
	}
	return "data={" + dataText(c.Data()) + "} params={" + paramsText(c.Params) + "} errors=[" + strings.Join(errs, "; ") + "]"
}

// AddKept records a values map a handler keeps beyond its request.
func (st *ReqState) AddKept(m map[string]any) {
	st.cmu.Lock()
	defer st.cmu.Unlock()
	if m != nil {
		st.Kept = append(st.Kept, m)
	}
}

// FreezeCopies records what the copies hold now (called right after their request ended).
func (st *ReqState) FreezeCopies() {
	st.cmu.Lock()
	defer st.cmu.Unlock()
	st.copyBase = st.copyBase[:0]
	for _, c := range st.Copies {
		// the background job the copy was made for finishes after the request and records its own result in ITS
		// context: nothing of that may reach the requests served later (and nothing of theirs may reach the copy)
		if !st.jobsDone {
			c.AddError(fmt.Errorf("background job of %s failed", st.ID))
			c.Set("job-of", st.ID)
			// ... and reports the failure on its own context: a copy has its own response state (no connection
			// behind it), so this is nobody else's status
			c.Resp.WriteHeader(599)
			c.SetStatus(598)
		}
		st.copyBase = append(st.copyBase, CopyText(c))
	}
	if !st.jobsDone && st.world != nil && len(st.Copies) > 0 {
		// (called while the world's lock is free: Serve calls FreezeCopies after the dispatch returned)
		st.world.mu.Lock()
		if len(st.world.lateCopies) < 8 {
			st.world.lateCopies = append(st.world.lateCopies, st.Copies...)
		}
		st.world.mu.Unlock()
	}
	st.keptBase = st.keptBase[:0]
	for _, m := range st.Kept {
		if !st.jobsDone {
			m["note-of-the-job-of-"+st.ID] = "x" // visible to later requests only if they were given this very map
		}
		st.keptBase = append(st.keptBase, dataText(m))
	}
	st.jobsDone = true
}

// CheckCopies verifies that the copies still hold what they held when their request ended.
func (st *ReqState) CheckCopies() error {
	st.cmu.Lock()
	defer st.cmu.Unlock()
	for i, c := range st.Copies {
		if i < len(st.copyBase) {
			if now := CopyText(c); now != st.copyBase[i] {
				return fmt.Errorf("a context copy taken by request %s held %s when that request ended, now it holds %s", st.ID, st.copyBase[i], now)
			}
		}
	}
	for i, m := range st.Kept {
		if i < len(st.keptBase) {
			if now := dataText(m); now != st.keptBase[i] {
				return fmt.Errorf("the values map (c.Data()) kept by request %s held {%s} when that request ended, now it holds {%s}", st.ID, st.keptBase[i], now)
			}
		}
	}
	return nil
}

// NewWorld creates an empty world.
func NewWorld() *World { return &World{reqs: map[string]*ReqState{}} }

// NewScript allocates a script with a fresh id.
func (w *World) NewScript(prefix string, ops ...Op) *Script {
	w.mu.Lock()
	defer w.mu.Unlock()
	w.nextID++
	return &Script{ID: w.nextID, Name: fmt.Sprintf("%s%d", prefix, w.nextID), Ops: ops}
}

func (w *World) state(req *http.Request) *ReqState {
	id := req.Header.Get("X-Req")
	w.mu.Lock()
	defer w.mu.Unlock()
	st := w.reqs[id]
	if st == nil {
		// a handler running on behalf of an unknown request: make it visible
		st = &ReqState{ID: id, Tr: &Trace{}}
		w.reqs[id] = st
	}
	return st
}

// Handler turns a script into a rux handler. The events go to the trace of the
// request the handler is serving (identified by c.Req), so executing a
// handler on behalf of a foreign request is visible.
func (w *World) Handler(s *Script) rux.HandlerFunc {
	return func(c *rux.Context) {
		st := w.state(c.Req)
		if st.Ctx == nil {
			st.Ctx = c
			// the background jobs of EARLIER requests are still alive: right now one of them reports on its copy
			// (a status on the copy's own response state) - while this request is in flight
			w.mu.Lock() // (one job at a time touches a copy: the copies themselves are not shared between jobs)
			for _, cp := range w.lateCopies {
				cp.Resp.WriteHeader(597)
				cp.SetStatus(596)
			}
			w.mu.Unlock()
			if st.First != nil {
				st.First(c)
			}
		}
		rc := &RCtx{C: c, NoAbt: st.NoAbt, St: st}
		if w.Subs && !st.Nested && w.Router != nil {
			rc.SubFn = func(method, path string) string {
				st2 := w.NewRequest(method, path)
				st2.Nested = true // one level only
				return SubText(st2.Serve(w.Router))
			}
		}
		if w.Sched != nil {
			id := st.ID
			rc.Y = func() { w.Sched.Yield(id) }
		}
		Run(s, rc, st.Tr)
	}
}

// PanicHook builds Router.OnPanic from a script.
func (w *World) PanicHook(s *Script) rux.HandlerFunc {
	return func(c *rux.Context) {
		st := w.state(c.Req)
		v, _ := c.Get(rux.CTXRecoverResult)
		st.Recovered = v
		st.NRecovered++
		st.Tr.Add("OnPanic recovered=%s", label(v))
		Run(s, &RCtx{C: c, NoAbt: st.NoAbt, St: st}, st.Tr)
	}
}

// ErrorHook builds Router.OnError from a script.
func (w *World) ErrorHook(s *Script) rux.HandlerFunc {
	return func(c *rux.Context) {
		st := w.state(c.Req)
		st.Tr.Add("OnError errors=%d", len(c.Errors))
		Run(s, &RCtx{C: c, NoAbt: st.NoAbt, St: st}, st.Tr)
	}
}

// BuildRequest is the request for (method, path) as both sides see it.  Query string and Accept header are functions
// of method and path: the same raw query recurs with other paths, the accepted types differ from method to method - what
// one request's getters hand out, and what its handlers do with that, is that request's own business.
func BuildRequest(method, path string) *http.Request {
	return &http.Request{Method: method, URL: &url.URL{Path: path, RawQuery: fmt.Sprintf("page=%d&token=abc", len(path)%2)},
		Header: http.Header{"Accept": {fmt.Sprintf("text/x-%s-%d, application/json;q=0.8", strings.ToLower(method), len(path)%3)}}, Proto: "HTTP/1.1", ProtoMajor: 1, ProtoMinor: 1}
}

// NewRequest prepares the real-side state of a request.
func (w *World) NewRequest(method, path string, faults ...Fault) *ReqState {
	w.mu.Lock()
	w.nreq++
	id := fmt.Sprintf("q%d", w.nreq)
	st := &ReqState{ID: id, Tr: &Trace{}, Rec: NewRec(faults...), world: w}
	st.Req = BuildRequest(method, path)
	st.Req.Header.Set("X-Req", id)
	if w.CancelEvery > 0 && w.nreq%w.CancelEvery == 0 {
		// the client has gone away already: the request's context is cancelled.  A router has no business looking
		// at that - the chain runs as it always does (handlers decide for themselves what to do about it)
		ctx, cancel := context.WithCancel(context.Background())
		cancel()
		st.Req = st.Req.WithContext(ctx)
	}
	w.reqs[id] = st
	w.mu.Unlock()
	return st
}

// Serve runs the request through the real router; a panic that leaves ServeHTTP is returned.
func (st *ReqState) Serve(r *rux.Router) (out Outcome) {
	func() {
		defer func() { out.Escaped = recover() }()
		r.ServeHTTP(st.Rec, st.Req)
	}()
	st.FreezeCopies()
	out.Trace, out.Log = st.Tr.String(), st.Rec.Log()
	return
}

// ServeVia is Serve through another documented entry point: "HandleContext" dispatches a context the caller made.
func (st *ReqState) ServeVia(r *rux.Router, entry string) (out Outcome) {
	if entry != "HandleContext" {
		return st.Serve(r)
	}
	func() {
		defer func() { out.Escaped = recover() }()
		c := &rux.Context{}
		c.Init(st.Rec, st.Req)
		r.HandleContext(c)
	}()
	st.FreezeCopies()
	out.Trace, out.Log = st.Tr.String(), st.Rec.Log()
	return
}

// ServeOn dispatches the request on a context the caller owns and re-initialises for every request (Init +
// HandleContext): the documented way to drive the router with one's own context.
func (st *ReqState) ServeOn(r *rux.Router, c *rux.Context) (out Outcome) {
	func() {
		defer func() { out.Escaped = recover() }()
		c.Init(st.Rec, st.Req)
		r.HandleContext(c)
	}()
	st.FreezeCopies()
	out.Trace, out.Log = st.Tr.String(), st.Rec.Log()
	return
}

// Diff compares a real outcome with the model's; "" when equal.
func Diff(real, want Outcome) string {
	var ss []string
	if real.Trace != want.Trace {
		ss = append(ss, fmt.Sprintf("handler trace differs:\n--- rux ---\n%s\n--- model ---\n%s", real.Trace, want.Trace))
	}
	if real.Log != want.Log {
		ss = append(ss, fmt.Sprintf("underlying writer calls differ:\n rux:   %s\n model: %s", real.Log, want.Log))
	}
	if labelOrNil(real.Escaped) != labelOrNil(want.Escaped) {
		ss = append(ss, fmt.Sprintf("escaped panic differs: rux %s, model %s", labelOrNil(real.Escaped), labelOrNil(want.Escaped)))
	}
	return strings.Join(ss, "\n")
}

func labelOrNil(v any) string {
	if v == nil {
		return "none"
	}
	return label(v)
}

// Default404 / Default405 stand for rux's built-in fallback handlers.
func Default404() *Script {
	return &Script{Name: "default404", Silent: true, Ops: []Op{{K: OpDefault404}}}
}

// Default405 is the built-in method-not-allowed handler for the given allowed set.
func Default405(allowed []string) *Script {
	a := append([]string{}, allowed...)
	sort.Strings(a)
	return &Script{Name: "default405", Silent: true, Ops: []Op{{K: OpDefault405, S: strings.Join(a, ", ")}}}
}
