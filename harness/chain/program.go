package chain

import (
	"fmt"
	"net/http"
	"net/url"
	"strings"

	"github.com/gookit/rux"
	"pgregory.net/rapid"

	"verifharness/model"
)

// Stmt is one statement of a registration program.
type Stmt struct {
	Kind string // "use", "route", "group", "notfound", "notallowed"
	Hs   []*Script
	// route
	Methods  []string
	Path     string // as written
	Main     *Script
	Variadic []*Script
	PreUse   []*Script   // Route.Use before the route is attached (style 2)
	Later    [][]*Script // Route.Use calls after registration
	Style    int         // 0 Add+Use, 1 GET/POST... with variadic, 2 NewRoute+Use+AttachTo, 3 Any
	// group
	Prefix string
	Body   []*Stmt
	Spare  int   // spare capacity of the handler slices handed to rux
	Reuse  *Stmt // non-nil: this group is given the very same handler slice (same backing array) as that earlier group
	funcs  []rux.HandlerFunc

	Route *rux.Route // filled by Apply (nil for Any)
}

// Program is a registration program plus hooks.
type Program struct {
	Opts  model.Options
	Body  []*Stmt
	Hooks Hooks
}

func names(hs []*Script) string {
	ss := make([]string, len(hs))
	for i, h := range hs {
		ss[i] = h.Name
	}
	return strings.Join(ss, ",")
}

func (s *Stmt) text(ind string, sb *strings.Builder) {
	switch s.Kind {
	case "use":
		fmt.Fprintf(sb, "%sUse(%s)\n", ind, names(s.Hs))
	case "notfound":
		fmt.Fprintf(sb, "%sNotFound(%s)\n", ind, names(s.Hs))
	case "notallowed":
		fmt.Fprintf(sb, "%sNotAllowed(%s)\n", ind, names(s.Hs))
	case "route":
		var later []string
		for _, l := range s.Later {
			later = append(later, "Use("+names(l)+")")
		}
		fmt.Fprintf(sb, "%sRoute#%d(%s %q main=%s preUse=[%s] variadic=[%s] later=%v)\n", ind, s.Style, strings.Join(s.Methods, ","), s.Path, s.Main.Name, names(s.PreUse), names(s.Variadic), later)
	case "group", "controller", "resource":
		fmt.Fprintf(sb, "%s%s(%q, mw=[%s]) {\n", ind, map[string]string{"group": "Group", "controller": "Controller", "resource": "Resource"}[s.Kind], s.Prefix, names(s.Hs))
		for _, b := range s.Body {
			b.text(ind+"  ", sb)
		}
		fmt.Fprintf(sb, "%s}\n", ind)
	}
}

func (p *Program) String() string {
	var sb strings.Builder
	fmt.Fprintf(&sb, "options %s\n", p.Opts)
	for _, s := range p.Body {
		s.text("", &sb)
	}
	if p.Hooks.OnPanic != nil {
		fmt.Fprintf(&sb, "OnPanic=%s\n", p.Hooks.OnPanic)
	}
	if p.Hooks.OnError != nil {
		fmt.Fprintf(&sb, "OnError=%s\n", p.Hooks.OnError)
	}
	return sb.String()
}

// Scripts lists every script of the program with its ops.
func (p *Program) Scripts() string {
	var sb strings.Builder
	var walk func(ss []*Stmt)
	pr := func(hs []*Script) {
		for _, h := range hs {
			fmt.Fprintf(&sb, "  %s\n", h)
		}
	}
	walk = func(ss []*Stmt) {
		for _, s := range ss {
			pr(s.Hs)
			if s.Kind == "route" {
				pr(s.PreUse)
				pr(s.Variadic)
				for _, l := range s.Later {
					pr(l)
				}
				pr([]*Script{s.Main})
			}
			walk(s.Body)
		}
	}
	walk(p.Body)
	return sb.String()
}

func (w *World) funcs(hs []*Script, spare int) []rux.HandlerFunc {
	fs := w.ownFuncs(hs, spare)
	w.mu.Lock()
	w.lent = append(w.lent, fs)
	w.mu.Unlock()
	return fs
}

// ownFuncs is funcs for the two calls that are documented to keep what they are given (NotFound, NotAllowed).
func (w *World) ownFuncs(hs []*Script, spare int) []rux.HandlerFunc {
	fs := make([]rux.HandlerFunc, 0, len(hs)+spare)
	for _, h := range hs {
		fs = append(fs, w.Handler(h))
	}
	return fs
}

// reuseLentSlices is the caller going on with ITS slices once registration is over: every handler slice that was
// handed to Use / Group / GET ... / Route.Use / Resource as a variadic argument is overwritten - elements and spare
// capacity - with a handler that must never run.
func (w *World) reuseLentSlices() {
	poison := func(c *rux.Context) {
		w.state(c.Req).Tr.Add("A HANDLER FROM A SLICE THE CALLER REUSED AFTER REGISTRATION RAN")
	}
	w.mu.Lock()
	defer w.mu.Unlock()
	for _, fs := range w.lent {
		fs = fs[:cap(fs)]
		for i := range fs {
			fs[i] = poison
		}
	}
	w.lent = nil
}

// Apply executes the program against a real router through the public API.
func (p *Program) Apply(w *World) *rux.Router {
	r := p.Opts.NewRouter()
	var run func(ss []*Stmt)
	n := 0
	run = func(ss []*Stmt) {
		for _, s := range ss {
			n++
			// between its registrations the application also looks at what it has built so far (read-only API), and
			// now and then makes a call that the router refuses and recovers from it: neither leaves anything behind
			switch n % 6 {
			case 2:
				model.Observe(r)
			case 4:
				model.RejectedCalls(r, model.RouteDef{Methods: []string{"GET"}}, "/zz-rejected/{id}", n/6)
			}
			switch s.Kind {
			case "use":
				r.Use(w.funcs(s.Hs, s.Spare)...)
			case "notfound":
				r.NotFound(w.ownFuncs(s.Hs, s.Spare)...)
			case "notallowed":
				r.NotAllowed(w.ownFuncs(s.Hs, s.Spare)...)
			case "group":
				body := s.Body
				if s.Reuse != nil && s.Reuse.funcs != nil {
					s.funcs = s.Reuse.funcs // the caller keeps one slice and passes it to several groups
				} else {
					s.funcs = w.funcs(s.Hs, s.Spare)
				}
				r.Group(s.Prefix, func() { run(body) }, s.funcs...)
			case "controller":
				body := s.Body
				r.Controller(s.Prefix, ctl(func() { run(body) }), w.funcs(s.Hs, s.Spare)...)
			case "resource":
				r.Resource(s.Prefix, &Res{w: w, index: s.Body[0].Main, show: s.Body[1].Main, del: s.Body[2].Main}, w.funcs(s.Hs, s.Spare)...)
			case "route":
				main := w.Handler(s.Main)
				switch s.Style {
				case 0:
					s.Route = r.Add(s.Path, main, s.Methods...)
					s.Route.Use(w.funcs(s.Variadic, s.Spare)...)
				case 1:
					f := map[string]func(string, rux.HandlerFunc, ...rux.HandlerFunc) *rux.Route{
						"GET": r.GET, "POST": r.POST, "PUT": r.PUT, "PATCH": r.PATCH, "DELETE": r.DELETE,
						"OPTIONS": r.OPTIONS, "HEAD": r.HEAD, "CONNECT": r.CONNECT, "TRACE": r.TRACE}[s.Methods[0]]
					s.Route = f(s.Path, main, w.funcs(s.Variadic, s.Spare)...)
				case 2:
					rt := rux.NewRoute(s.Path, main, s.Methods...)
					rt.Use(w.funcs(s.PreUse, s.Spare)...)
					model.ObserveRoute(rt)
					rt.AttachTo(r)
					if len(s.Variadic) > 0 {
						rt.Use(w.funcs(s.Variadic, s.Spare)...)
					}
					s.Route = rt
				default:
					r.Any(s.Path, main, w.funcs(s.Variadic, s.Spare)...)
				}
				if rt := s.Route; rt != nil && n%3 == 0 {
					// more middleware than a route may carry: refused as a whole
					model.TryCall(func() {
						many := make([]rux.HandlerFunc, 70)
						for i := range many {
							many[i] = model.RejectedStray
						}
						rt.Use(many...)
					})
				}
				for _, l := range s.Later {
					if s.Route != nil {
						s.Route.Use(w.funcs(l, 0)...)
					}
				}
			}
		}
	}
	run(p.Body)
	w.reuseLentSlices()
	w.Router = r
	if p.Hooks.OnPanic != nil {
		r.OnPanic = w.PanicHook(p.Hooks.OnPanic)
	}
	if p.Hooks.OnError != nil {
		r.OnError = w.ErrorHook(p.Hooks.OnError)
	}
	return r
}

// ctl is a ControllerFace whose AddRoutes runs a statement list.
type ctl func()

func (c ctl) AddRoutes(*rux.Router) { c() }

// Res is the controller type used by "resource" statements: Index, Show and Delete are implemented.
type Res struct {
	w                *World
	index, show, del *Script
}

func (c *Res) Index(ctx *rux.Context)  { c.w.Handler(c.index)(ctx) }
func (c *Res) Show(ctx *rux.Context)   { c.w.Handler(c.show)(ctx) }
func (c *Res) Delete(ctx *rux.Context) { c.w.Handler(c.del)(ctx) }

// Uses names middleware for an action the controller does not implement (and for a name that is no action at all):
// it belongs to nothing and must not run anywhere.
func (c *Res) Uses() map[string][]rux.HandlerFunc {
	stray := func(ctx *rux.Context) {
		c.w.state(ctx.Req).Tr.Add("MIDDLEWARE OF AN ACTION THE CONTROLLER DOES NOT IMPLEMENT RAN")
	}
	return map[string][]rux.HandlerFunc{"Create": {stray}, "Edit": {stray}, "Nope": {stray}}
}

// Clone copies a statement tree (scripts are shared, they are immutable); slice-reuse links are remapped to
// the copies.
func Clone(ss []*Stmt) []*Stmt {
	m := map[*Stmt]*Stmt{}
	var cp func(ss []*Stmt) []*Stmt
	cp = func(ss []*Stmt) []*Stmt {
		out := make([]*Stmt, len(ss))
		for i, s := range ss {
			c := *s
			c.Route, c.funcs = nil, nil
			m[s] = &c
			c.Body = cp(s.Body)
			out[i] = &c
		}
		return out
	}
	out := cp(ss)
	for _, c := range m {
		if c.Reuse != nil {
			c.Reuse = m[c.Reuse]
		}
	}
	return out
}

// Unlink removes slice-reuse links that point to a statement which is no longer part of the tree.
func Unlink(ss []*Stmt) {
	present := map[*Stmt]bool{}
	var walk func(ss []*Stmt)
	walk = func(ss []*Stmt) {
		for _, s := range ss {
			present[s] = true
			walk(s.Body)
		}
	}
	walk(ss)
	var fix func(ss []*Stmt)
	fix = func(ss []*Stmt) {
		for _, s := range ss {
			if s.Reuse != nil && !present[s.Reuse] {
				s.Reuse = nil
			}
			fix(s.Body)
		}
	}
	fix(ss)
}

// MRoute is a route of the program model.
type MRoute struct {
	Full    string // full normalised path
	Methods []string
	Chain   []*Script // enclosing groups' middleware (outer -> inner, as in effect at registration) ++ route middleware
	Main    *Script
	Stmt    *Stmt
}

// PModel is what the model interpreter computes from a program.
type PModel struct {
	MaxChain   int // 0: requests whose chain is longer than 63 handlers are skipped; > 0: that limit instead (checks whose scripts never abort)
	Routes     []MRoute
	Global     []*Script
	NotFound   []*Script
	NotAllowed []*Script
	Table      *model.Table
	Hooks      Hooks
}

type scope struct {
	prefix string
	mws    []*Script
}

func cat(a []*Script, b ...*Script) []*Script {
	out := make([]*Script, 0, len(a)+len(b))
	out = append(out, a...)
	return append(out, b...)
}

// Model interprets the program with a scope stack (DESIGN 2.3).
func (p *Program) Model() *PModel {
	pm := &PModel{Hooks: p.Hooks, Table: &model.Table{Opts: p.Opts}}
	strict := p.Opts.Strict
	var run func(ss []*Stmt, sc scope, depth int)
	run = func(ss []*Stmt, sc scope, depth int) {
		cur := sc
		for _, s := range ss {
			switch s.Kind {
			case "use":
				if depth == 0 {
					pm.Global = cat(pm.Global, s.Hs...)
				} else {
					cur.mws = cat(cur.mws, s.Hs...)
				}
			case "notfound":
				pm.NotFound = s.Hs
			case "notallowed":
				pm.NotAllowed = s.Hs
			case "group", "controller", "resource":
				pfx := s.Prefix
				if s.Kind == "resource" {
					pfx += "res" // Resource concatenates base path and lower-cased type name
				}
				child := scope{prefix: cur.prefix + model.Normalize(pfx, strict), mws: cat(cur.mws, s.Hs...)}
				run(s.Body, child, depth+1)
			case "route":
				full := model.Normalize(s.Path, strict)
				if cur.prefix != "" {
					full = model.Normalize(cur.prefix+full, strict)
				}
				chain := cat(cur.mws, s.PreUse...)
				chain = cat(chain, s.Variadic...)
				for _, l := range s.Later {
					chain = cat(chain, l...)
				}
				ms := s.Methods
				if s.Style == 3 {
					ms = model.Methods
				}
				pm.Routes = append(pm.Routes, MRoute{Full: full, Methods: ms, Chain: chain, Main: s.Main, Stmt: s})
				var pat model.Pattern
				if full == "/*" {
					pat = model.Pattern{Raw: "/*"}
				} else {
					pat = model.MustParse(full)
				}
				pm.Table.Routes = append(pm.Table.Routes, model.RouteDef{P: pat, Methods: ms, Idx: len(pm.Table.Routes)})
			}
		}
	}
	run(p.Body, scope{}, 0)
	return pm
}

// EnableSub lets the model predict nested requests (one level deep).
func (pm *PModel) EnableSub() {
	inner := pm.Hooks
	inner.Sub = nil
	pm.Hooks.Sub = func(method, path string) string {
		chain, ps, _ := pm.Expect(method, path)
		req := BuildRequest(method, path)
		out, _ := ModelDispatch(chain, inner, NewRec(), req, ps, false)
		return SubText(out)
	}
}

// EnableForward lets the model predict an internal forward (Router.HandleContext): the context is reset and
// dispatched again for the new path on the same writer; afterwards the forwarding chain is finished.
func (pm *PModel) EnableForward() {
	pm.Hooks.Forward = func(m *MCtx, path string) {
		chain, ps, _ := pm.Expect(m.Request.Method, path)
		inner := NewMCtx(chain, m.W, m.Request, ps, m.Tr)
		inner.NoAbt = m.NoAbt
		inner.resp = m.W // Reset() restores c.Resp
		if v := ModelRun(inner, pm.Hooks); v != nil {
			panic(v)
		}
		// the forwarding handler goes on with the very same context: its chain is finished, state is the inner one
		m.P, m.Aborted, m.data, m.NErr, m.Ps, m.resp = len(m.Chain), inner.Aborted, inner.data, inner.NErr, inner.Ps, inner.resp
	}
}

// AllScripts lists the scripts of the program (not the hooks).
func (p *Program) AllScripts() []*Script {
	var out []*Script
	var walk func(ss []*Stmt)
	walk = func(ss []*Stmt) {
		for _, s := range ss {
			out = append(out, s.Hs...)
			if s.Kind == "route" {
				out = append(out, s.PreUse...)
				out = append(out, s.Variadic...)
				for _, l := range s.Later {
					out = append(out, l...)
				}
				out = append(out, s.Main)
			}
			walk(s.Body)
		}
	}
	walk(p.Body)
	return out
}

// Expect resolves a request in the model: the handler chain that must run and the parameters.
func (pm *PModel) Expect(method, path string) (chain []*Script, ps map[string]string, res model.Result) {
	res = pm.Table.Resolve(method, path)
	switch res.Kind {
	case model.Direct, model.HeadGet, model.Fallback:
		rt := pm.Routes[res.Route]
		chain = cat(cat(pm.Global, rt.Chain...), rt.Main)
		pat := pm.Table.Routes[res.Route].P
		if !pat.IsStatic() {
			ps = map[string]string{}
			sm := pat.Regex().FindStringSubmatch(res.Norm)
			for i, v := range pat.Vars() {
				ps[v.Name] = sm[i+1]
			}
		}
	case model.NotAllowed:
		if len(pm.NotAllowed) > 0 {
			chain = cat(pm.Global, pm.NotAllowed...)
		} else {
			chain = cat(pm.Global, Default405(res.Allowed))
		}
	default:
		if len(pm.NotFound) > 0 {
			chain = cat(pm.Global, pm.NotFound...)
		} else {
			chain = cat(pm.Global, Default404())
		}
	}
	return
}

// ---------------------------------------------------------------- generators

// ScriptCfg selects what generated handlers may do.
type ScriptCfg struct {
	Abort   int  // 0: never; n: probability 1/n per handler
	Panic   int  // 0: never; n: probability 1/n per handler
	Writes  bool // body writes, status, headers, flush
	Faulty  bool // status codes <= 0 as well
	Data    bool // Set / AddError / Observe
	Pollute bool // wrap c.Resp, replace c.Req, mutate Params
	Yields  bool // scheduling points at entry, around Next() and at exit (C03)
	Copies  bool // c.Copy() kept beyond the request
	Hijack  bool // take over the connection through http.Hijacker
	Nexts   []int
}

var statusGen = rapid.SampledFrom([]int{200, 201, 204, 301, 400, 404, 418, 500, 503, 299, 100, 599, 799})

func genMisc(t *rapid.T, cfg ScriptCfg) (op Op, ok bool) {
	var kinds []OpKind
	if cfg.Writes {
		kinds = append(kinds, OpWrite, OpWrite, OpStatus, OpHeader, OpFlush, OpBlob)
	}
	if cfg.Data {
		kinds = append(kinds, OpSet, OpAddError, OpObserve, OpObserve)
	}
	if cfg.Pollute {
		kinds = append(kinds, OpWrapResp, OpReqCtx, OpSetParam)
	}
	if cfg.Hijack {
		kinds = append(kinds, OpHijack)
	}
	if cfg.Copies {
		kinds = append(kinds, OpCopy)
	}
	if len(kinds) == 0 {
		return Op{}, false
	}
	switch k := rapid.SampledFrom(kinds).Draw(t, "op"); k {
	case OpWrite:
		return Op{K: OpWrite, S: rapid.StringMatching(`[a-z]{0,4}`).Draw(t, "data")}, true
	case OpStatus:
		code := statusGen.Draw(t, "code")
		if cfg.Faulty && rapid.IntRange(0, 4).Draw(t, "nonPositive") == 0 {
			code = rapid.SampledFrom([]int{0, -1}).Draw(t, "code")
		}
		return Op{K: OpStatus, N: code}, true
	case OpBlob:
		// a response helper; its data may be empty ("only write headers": nothing is committed yet)
		return Op{K: OpBlob, N: statusGen.Draw(t, "blobStatus"), S: rapid.SampledFrom([]string{"", "", "b"}).Draw(t, "blobData")}, true
	case OpHeader:
		return Op{K: OpHeader, S: rapid.SampledFrom([]string{"X-A", "X-B", "Content-Type"}).Draw(t, "hk"), S2: rapid.StringMatching(`[a-z]{1,3}`).Draw(t, "hv")}, true
	case OpSet:
		return Op{K: OpSet, S: rapid.SampledFrom([]string{"k1", "k2", "k3"}).Draw(t, "dk"), S2: rapid.StringMatching(`[a-z]{1,3}`).Draw(t, "dv")}, true
	case OpReqCtx:
		return Op{K: OpReqCtx, S: "k", S2: rapid.StringMatching(`[a-z]{1,3}`).Draw(t, "rv")}, true
	case OpSetParam:
		return Op{K: OpSetParam, S: rapid.SampledFrom([]string{"id", "zz"}).Draw(t, "pk"), S2: rapid.StringMatching(`[a-z]{1,3}`).Draw(t, "pv")}, true
	case OpAddError:
		// now and then a burst of errors (more than any small pre-allocated list)
		if rapid.IntRange(0, 7).Draw(t, "errorBurst") == 0 {
			return Op{K: OpAddError, N: rapid.IntRange(9, 20).Draw(t, "nErrors")}, true
		}
		return Op{K: OpAddError}, true
	default:
		return Op{K: k}, true
	}
}

func genAbort(t *rapid.T) Op {
	switch rapid.IntRange(0, 3).Draw(t, "abortKind") {
	case 0:
		return Op{K: OpAbort}
	case 1:
		return Op{K: OpAbortThen}
	case 2:
		return Op{K: OpAbortStatus, N: statusGen.Draw(t, "abortCode")}
	default:
		return Op{K: OpAbortStatusMsg, N: statusGen.Draw(t, "abortCode"), S: rapid.StringMatching(`[a-z]{0,5}`).Draw(t, "abortMsg")}
	}
}

// GenScript draws the behaviour of one handler.
func GenScript(t *rapid.T, w *World, prefix string, cfg ScriptCfg) *Script {
	nexts := cfg.Nexts
	if len(nexts) == 0 {
		nexts = []int{0, 1, 1, 1, 2}
	}
	n := rapid.SampledFrom(nexts).Draw(t, "nexts")
	var ops []Op
	misc := func() {
		for i, k := 0, rapid.IntRange(0, 2).Draw(t, "nmisc"); i < k; i++ {
			if op, ok := genMisc(t, cfg); ok {
				ops = append(ops, op)
			}
		}
	}
	yield := func() {
		if cfg.Yields && rapid.IntRange(0, 3).Draw(t, "yield") > 0 {
			ops = append(ops, Op{K: OpYield})
		}
	}
	yield()
	misc()
	for i := 0; i < n; i++ {
		yield()
		ops = append(ops, Op{K: OpNext})
		yield()
		misc()
	}
	yield()
	if cfg.Abort > 0 && rapid.IntRange(1, cfg.Abort).Draw(t, "aborts") == 1 {
		at := rapid.IntRange(0, len(ops)).Draw(t, "abortAt")
		ins := []Op{genAbort(t)}
		if rapid.Bool().Draw(t, "nextAfterAbort") {
			ins = append(ins, Op{K: OpNext})
		}
		ops = append(ops[:at], append(ins, ops[at:]...)...)
	}
	if cfg.Panic > 0 && rapid.IntRange(1, cfg.Panic).Draw(t, "panics") == 1 {
		at := rapid.IntRange(0, len(ops)).Draw(t, "panicAt")
		s := w.NewScript(prefix)
		ops = append(ops[:at], append([]Op{{K: OpPanic, S: s.Name, N: rapid.SampledFrom(PanicKinds).Draw(t, "panicValue")}}, ops[at:]...)...)
		s.Ops = ops
		return s
	}
	return w.NewScript(prefix, ops...)
}

// ProgCfg sizes the program generator.
type ProgCfg struct {
	MaxDepth    int
	MaxStmts    int
	MaxMw       int  // middleware per Use / Group / route
	LongChains  bool // sometimes give a route 20-40 middleware
	Fallbacks   bool // NotFound / NotAllowed statements
	Dynamic     bool // routes with {id}
	EmptyPaths  bool // "" and "/" route paths (non-strict only)
	AnyRoutes   bool
	Controllers bool // Controller and Resource registrations
	RootGroups  bool // Group("/", ...) at top level
	Script      ScriptCfg
}

type progGen struct {
	t    *rapid.T
	w    *World
	cfg  ProgCfg
	used map[string]bool
	opts model.Options
}

func (g *progGen) scripts(prefix string, n int) []*Script {
	hs := make([]*Script, n)
	for i := range hs {
		hs[i] = GenScript(g.t, g.w, prefix, g.cfg.Script)
	}
	return hs
}

func (g *progGen) body(prefix string, nmw int, depth int) []*Stmt {
	t := g.t
	var out []*Stmt
	n := rapid.IntRange(1, g.cfg.MaxStmts).Draw(t, "nstmts")
	for i := 0; i < n; i++ {
		switch k := rapid.IntRange(0, 9).Draw(t, "stmt"); {
		case k == 0 || k == 1: // Use
			hs := g.scripts("u", rapid.IntRange(1, max(1, g.cfg.MaxMw)).Draw(t, "nuse"))
			if depth > 0 && nmw+len(hs) > 40 {
				continue
			}
			if depth > 0 {
				nmw += len(hs)
			}
			out = append(out, &Stmt{Kind: "use", Hs: hs, Spare: rapid.IntRange(0, 3).Draw(t, "spare")})
		case k <= 6: // route
			seg := rapid.StringMatching(`[a-c]{1,2}`).Draw(t, "seg")
			path := "/" + seg
			if g.cfg.Dynamic && rapid.IntRange(0, 3).Draw(t, "dyn") == 0 {
				path = rapid.SampledFrom([]string{"/" + seg + "/{id}", "/{id}/" + seg, "/" + seg + "[/{id}]", "/" + seg + "[.html]", "/" + seg + "/x[/y]"}).Draw(t, "dynPath")
			}
			if g.cfg.EmptyPaths && rapid.IntRange(0, 7).Draw(t, "emptyPath") == 0 {
				// the index route of a group: "" and "/" both mean "/" (N("") = "/"), so inside Group("/a") it is
				// N("/a" ++ "/"): "/a" by default and "/a/" under StrictLastSlash
				path = rapid.SampledFrom([]string{"", "/"}).Draw(t, "empty")
			}
			written := path
			if path != "" && path != "/" && rapid.Bool().Draw(t, "noLeadingSlash") {
				written = path[1:]
			}
			full := model.Normalize(prefix+model.Normalize(path, g.opts.Strict), g.opts.Strict)
			s := &Stmt{Kind: "route", Path: written, Style: rapid.IntRange(0, 2).Draw(t, "style"), Spare: rapid.IntRange(0, 3).Draw(t, "spare")}
			if g.cfg.AnyRoutes && rapid.IntRange(0, 9).Draw(t, "any") == 0 {
				s.Style = 3
				s.Methods = model.Methods
			} else if s.Style == 1 {
				s.Methods = []string{rapid.SampledFrom(model.Methods).Draw(t, "method")} // every shortcut, CONNECT() and TRACE() too
			} else {
				s.Methods = rapid.SliceOfNDistinct(rapid.SampledFrom(model.Methods[:5]), 1, 2, rapid.ID[string]).Draw(t, "methods")
			}
			dup := false
			for _, m := range s.Methods {
				dup = dup || g.used[m+full]
			}
			if dup {
				continue
			}
			for _, m := range s.Methods {
				g.used[m+full] = true
			}
			nm := rapid.IntRange(0, g.cfg.MaxMw).Draw(t, "nrouteMw")
			if g.cfg.LongChains && rapid.IntRange(0, 9).Draw(t, "long") == 0 {
				nm = rapid.IntRange(15, 62-nmw).Draw(t, "nrouteMwLong")
			}
			if nmw+nm > 62 {
				nm = 62 - nmw
			}
			hs := g.scripts("m", nm)
			switch {
			case s.Style == 2:
				k := rapid.IntRange(0, len(hs)).Draw(t, "preUse")
				s.PreUse, hs = hs[:k], hs[k:]
				fallthrough
			case s.Style == 0:
				k := rapid.IntRange(0, len(hs)).Draw(t, "laterSplit")
				s.Variadic = hs[:k]
				if k < len(hs) {
					s.Later = [][]*Script{hs[k:]}
				}
			default:
				s.Variadic = hs
			}
			s.Main = GenScript(t, g.w, "h", g.cfg.Script)
			out = append(out, s)
		case k <= 8: // group
			if depth >= g.cfg.MaxDepth {
				continue
			}
			seg := rapid.StringMatching(`[a-c]{1,2}(/[a-c])?`).Draw(t, "gseg")
			written := "/" + seg
			if rapid.Bool().Draw(t, "gNoLeadingSlash") {
				written = seg
			}
			rootGroup := g.cfg.RootGroups && depth == 0 && rapid.IntRange(0, 7).Draw(t, "rootGroup") == 0
			if rootGroup {
				// Group("/", ...) at top level: only the middleware is added (N("/" ++ path) = N(path))
				written, seg = "/", ""
			}
			hs := g.scripts("g", rapid.IntRange(0, g.cfg.MaxMw).Draw(t, "ngroupMw"))
			if nmw+len(hs) > 40 {
				hs = nil
			}
			s := &Stmt{Kind: "group", Prefix: written, Hs: hs, Spare: rapid.IntRange(0, 3).Draw(t, "spare")}
			// a caller-held middleware slice passed to several sibling groups
			if rapid.IntRange(0, 4).Draw(t, "reuseSlice") == 0 {
				for _, prev := range out {
					if prev.Kind == "group" && len(prev.Hs) > 0 && nmw+len(prev.Hs) <= 40 {
						s.Hs, s.Reuse = prev.Hs, prev
						if prev.Reuse != nil {
							s.Reuse = prev.Reuse
						}
						hs = s.Hs
					}
				}
			}
			if g.cfg.Controllers && s.Reuse == nil {
				switch rapid.IntRange(0, 7).Draw(t, "groupKind") {
				case 0, 1:
					s.Kind = "controller"
				case 2:
					s.Kind = "resource"
				}
			}
			if s.Kind == "resource" {
				// Resource(base, controller): base must end in '/', the type name "res" is appended
				s.Prefix = written + "/"
				full := model.Normalize(prefix+"/"+seg+"/res", g.opts.Strict)
				if g.used["GET"+full] || g.used["GET"+full+"/{id}"] || g.used["DELETE"+full+"/{id}"] || g.opts.Strict {
					continue
				}
				g.used["GET"+full], g.used["GET"+full+"/{id}"], g.used["DELETE"+full+"/{id}"] = true, true, true
				s.Body = []*Stmt{
					{Kind: "route", Methods: []string{"GET"}, Path: "/", Main: GenScript(t, g.w, "index", g.cfg.Script)},
					{Kind: "route", Methods: []string{"GET"}, Path: "{id}/", Main: GenScript(t, g.w, "show", g.cfg.Script)},
					{Kind: "route", Methods: []string{"DELETE"}, Path: "{id}/", Main: GenScript(t, g.w, "delete", g.cfg.Script)},
				}
				out = append(out, s)
				continue
			}
			if rootGroup {
				// also Controller("/", ...) / Controller("", ...): a controller mounted at the root is a group like any other
				if s.Kind == "controller" && rapid.Bool().Draw(t, "rootControllerEmptyBase") {
					s.Prefix = ""
				}
				s.Reuse = nil
				s.Body = g.body("/", nmw+len(s.Hs), depth+1)
				out = append(out, s)
				continue
			}
			s.Body = g.body(prefix+"/"+seg, nmw+len(hs), depth+1)
			out = append(out, s)
		default: // fallbacks
			if !g.cfg.Fallbacks || depth > 0 {
				continue
			}
			kind := rapid.SampledFrom([]string{"notfound", "notallowed"}).Draw(t, "fbKind")
			out = append(out, &Stmt{Kind: kind, Hs: g.scripts("f", rapid.IntRange(1, 2).Draw(t, "nfb")), Spare: rapid.IntRange(0, 2).Draw(t, "spare")})
		}
	}
	return out
}

// GenProgram draws a registration program.
func GenProgram(t *rapid.T, w *World, opts model.Options, cfg ProgCfg) *Program {
	if cfg.MaxStmts == 0 {
		cfg.MaxStmts = 4
	}
	g := &progGen{t: t, w: w, cfg: cfg, used: map[string]bool{}, opts: opts}
	return &Program{Opts: opts, Body: g.body("", 0, 0)}
}

// ReqInfo describes one checked request for classification.
type ReqInfo struct {
	Chain   []*Script
	Res     model.Result
	Skipped bool // chain longer than the handler limit
}

// CheckRequest sends one request through the real router and through the
// model and returns the difference ("" = none).
func CheckRequest(w *World, r *rux.Router, pm *PModel, method, path string, faults ...Fault) (string, ReqInfo) {
	msg, info, _ := CheckRequestState(w, r, pm, method, path, faults...)
	return msg, info
}

// CheckRequestState is CheckRequest that also returns the real-side request state.
func CheckRequestState(w *World, r *rux.Router, pm *PModel, method, path string, faults ...Fault) (string, ReqInfo, *ReqState) {
	chain, ps, res := pm.Expect(method, path)
	info := ReqInfo{Chain: chain, Res: res}
	limit := 63
	if pm.MaxChain > 0 {
		limit = pm.MaxChain
	}
	if len(chain) > limit {
		info.Skipped = true
		return "", info, nil
	}
	st := w.NewRequest(method, path, faults...)
	real := st.Serve(r)
	want, _ := ModelDispatch(chain, pm.Hooks, NewRec(faults...), st.Req, ps, st.NoAbt)
	if d := Diff(real, want); d != "" {
		return fmt.Sprintf("%s %q (%s, chain [%s] of %d handlers):\n%s", method, path, res.Kind, names(chain), len(chain), d), info, st
	}
	if real.Escaped == nil {
		if err := st.Rec.CheckCommit(); err != nil {
			return fmt.Sprintf("%s %q: %v", method, path, err), info, st
		}
	}
	if strict := pm.Table.Opts.Strict; w.Mounted && strings.HasPrefix(path, "/") && model.Normalize(path[1:], strict) == model.Normalize(path, strict) {
		// the same request once more, arriving for /pre<path> at http.StripPrefix("/pre/", router): what reaches the
		// router is the path without its leading slash (and RequestURI still names the mount) - same chain, same answer
		st2 := w.NewRequest(method, path, faults...)
		st2.Req.URL.Path = "/pre" + path
		st2.Req.RequestURI = "/pre" + (&url.URL{Path: path}).EscapedPath()
		var out2 Outcome
		func() {
			defer func() { out2.Escaped = recover() }()
			http.StripPrefix("/pre/", r).ServeHTTP(st2.Rec, st2.Req)
		}()
		st2.FreezeCopies()
		out2.Trace, out2.Log = st2.Tr.String(), st2.Rec.Log()
		want2, _ := ModelDispatch(chain, pm.Hooks, NewRec(faults...), BuildRequest(method, path), ps, st2.NoAbt)
		if d := Diff(out2, want2); d != "" {
			return fmt.Sprintf("%s %q mounted behind http.StripPrefix(\"/pre/\") (%s, chain [%s]):\n%s", method, path, res.Kind, names(chain), d), info, st
		}
	}
	return "", info, st
}

// Requests draws the probes for a program: every route, 404s, other methods.
func Requests(t *rapid.T, pm *PModel, extra int) [][2]string {
	var out [][2]string
	for i, rt := range pm.Routes {
		path, _, _ := model.GenMatching(t, pm.Table.Routes[i].P)
		if !model.Stable(path, pm.Table.Opts.Strict) {
			continue
		}
		out = append(out, [2]string{rt.Methods[0], path})
	}
	for i := 0; i < extra; i++ {
		var path string
		if len(pm.Routes) > 0 && rapid.Bool().Draw(t, "knownPath") {
			j := rapid.IntRange(0, len(pm.Routes)-1).Draw(t, "which")
			path, _, _ = model.GenMatching(t, pm.Table.Routes[j].P)
		} else {
			path = "/" + rapid.StringMatching(`[a-c]{1,2}(/[a-c]{1,2}){0,2}`).Draw(t, "missPath")
		}
		if !model.Stable(path, pm.Table.Opts.Strict) {
			continue
		}
		out = append(out, [2]string{rapid.SampledFrom(model.Methods[:7]).Draw(t, "probeMethod"), path})
	}
	// a request path longer than any small limit (1.1-3 KB): a 404 like any other, with the global middleware around it
	if extra > 0 && rapid.IntRange(0, 4).Draw(t, "longMissPath") == 0 {
		path := "/zz-" + strings.Repeat("long-segment/", rapid.IntRange(85, 230).Draw(t, "longSegs")) + "end"
		out = append(out, [2]string{rapid.SampledFrom(model.Methods[:7]).Draw(t, "longMethod"), path})
	}
	return out
}
