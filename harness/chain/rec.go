// Package chain holds the instrumented handlers, the chain interpreter, the
// recording ResponseWriter and the registration-program model shared by the
// middleware/context/writer properties (DESIGN 2.3-2.6).
package chain

import (
	"bufio"
	"errors"
	"fmt"
	"io"
	"net"
	"net/http"
	"sort"
	"strings"
)

// Call is one call received by the underlying ResponseWriter.
type Call struct {
	Kind string // "WriteHeader", "Write", "Flush"
	Code int
	Data string // bytes accepted
	Err  bool
	Hdr  string // header snapshot at WriteHeader time
}

func (c Call) String() string {
	switch c.Kind {
	case "WriteHeader":
		return fmt.Sprintf("WriteHeader(%d){%s}", c.Code, c.Hdr)
	case "Write":
		if c.Err {
			return fmt.Sprintf("Write(%q)+err", c.Data)
		}
		return fmt.Sprintf("Write(%q)", c.Data)
	}
	return c.Kind
}

// Fault makes the j-th Write (0-based) accept only Accept bytes and return an error.
type Fault struct {
	Write  int
	Accept int
}

// ErrFault is returned by a faulted write.
var ErrFault = errors.New("injected write fault")

// RecWriter is the recording http.ResponseWriter + http.Flusher given to ServeHTTP.
type RecWriter struct {
	H       http.Header
	Calls   []Call
	Faults  []Fault
	nwrites int
}

// NewRec creates a recording writer.
func NewRec(faults ...Fault) *RecWriter { return &RecWriter{H: http.Header{}, Faults: faults} }

func (w *RecWriter) Header() http.Header { return w.H }

func hdrText(h http.Header) string {
	var ks []string
	for k := range h {
		ks = append(ks, k)
	}
	sort.Strings(ks)
	var ss []string
	for _, k := range ks {
		ss = append(ss, k+"="+strings.Join(h[k], "|"))
	}
	return strings.Join(ss, ";")
}

func (w *RecWriter) WriteHeader(code int) {
	w.Calls = append(w.Calls, Call{Kind: "WriteHeader", Code: code, Hdr: hdrText(w.H)})
}

func (w *RecWriter) Write(b []byte) (int, error) {
	j := w.nwrites
	w.nwrites++
	for _, f := range w.Faults {
		if f.Write == j {
			n := f.Accept
			if n > len(b) {
				n = len(b)
			}
			w.Calls = append(w.Calls, Call{Kind: "Write", Data: string(b[:n]), Err: true})
			return n, ErrFault
		}
	}
	w.Calls = append(w.Calls, Call{Kind: "Write", Data: string(b)})
	return len(b), nil
}

// WriteString makes the recording writer an io.StringWriter, as net/http's own response writer is.  rux writes
// through Write; a call that reaches the underlying writer this way went around the wrapper and is recorded as such.
func (w *RecWriter) WriteString(s string) (int, error) {
	w.Calls = append(w.Calls, Call{Kind: "WriteString(around the wrapper)"})
	return w.Write([]byte(s))
}

// ReadFrom makes the recording writer an io.ReaderFrom, as net/http's own response writer is (sendfile).  Like
// WriteString it is a way around the wrapper: a call is recorded as such.
func (w *RecWriter) ReadFrom(r io.Reader) (int64, error) {
	w.Calls = append(w.Calls, Call{Kind: "ReadFrom(around the wrapper)"})
	b, err := io.ReadAll(r)
	n, werr := w.Write(b)
	if err == nil {
		err = werr
	}
	return int64(n), err
}

func (w *RecWriter) Flush() { w.Calls = append(w.Calls, Call{Kind: "Flush"}) }

// Hijack records the take-over of the connection (there is no real connection behind a recording writer).
func (w *RecWriter) Hijack() (net.Conn, *bufio.ReadWriter, error) {
	w.Calls = append(w.Calls, Call{Kind: "Hijack"})
	return nil, nil, nil
}

// Hijacked reports whether the connection was taken over.
func (w *RecWriter) Hijacked() bool {
	for _, c := range w.Calls {
		if c.Kind == "Hijack" {
			return true
		}
	}
	return false
}

// Log renders the call log.
func (w *RecWriter) Log() string {
	ss := make([]string, len(w.Calls))
	for i, c := range w.Calls {
		ss[i] = c.String()
	}
	return strings.Join(ss, " ")
}

// Body is the concatenation of the accepted bytes.
func (w *RecWriter) Body() string {
	var sb strings.Builder
	for _, c := range w.Calls {
		if c.Kind == "Write" {
			sb.WriteString(c.Data)
		}
	}
	return sb.String()
}

// HeaderCommits returns the codes of all WriteHeader calls.
func (w *RecWriter) HeaderCommits() []int {
	var cs []int
	for _, c := range w.Calls {
		if c.Kind == "WriteHeader" {
			cs = append(cs, c.Code)
		}
	}
	return cs
}

// EffectiveStatus is what a net/http client would see: a Write or Flush
// before any WriteHeader commits an implicit 200; only the first WriteHeader counts.
func (w *RecWriter) EffectiveStatus() int {
	for _, c := range w.Calls {
		if c.Kind == "WriteHeader" {
			return c.Code
		}
		return 200
	}
	return 0
}

// CheckCommit is the validity predicate of C08 on the raw call log: exactly
// one WriteHeader call and nothing before it.
func (w *RecWriter) CheckCommit() error {
	if w.Hijacked() {
		return nil // the handler owns the connection: the header is its business
	}
	n := len(w.HeaderCommits())
	if n != 1 {
		return fmt.Errorf("underlying writer received %d WriteHeader calls, want exactly 1: %s", n, w.Log())
	}
	if w.Calls[0].Kind != "WriteHeader" {
		return fmt.Errorf("underlying writer received %s before WriteHeader: %s", w.Calls[0].Kind, w.Log())
	}
	return nil
}

// ModelWriter is the reference implementation of the response-writer contract
// (C08): status changes are recorded, the header is committed exactly once -
// before the first body byte or flush, or at the end of the request - with the
// last positive status recorded before that point (200 if none).
type ModelWriter struct {
	U         *RecWriter
	status    int
	committed bool
	length    int
}

func (w *ModelWriter) Header() http.Header { return w.U.Header() }

func (w *ModelWriter) WriteHeader(code int) {
	if code > 0 {
		w.status = code
	}
}

// Commit sends the header if that has not happened yet.
func (w *ModelWriter) Commit() {
	if !w.committed {
		w.committed = true
		if w.status == 0 {
			w.status = 200
		}
		w.U.WriteHeader(w.status)
	}
}

func (w *ModelWriter) Write(b []byte) (int, error) {
	w.Commit()
	n, err := w.U.Write(b)
	w.length += n
	return n, err
}

func (w *ModelWriter) Flush() {
	w.Commit()
	w.U.Flush()
}

// Hijack hands the connection to the handler: if the header was not committed yet it never will be by the router.
func (w *ModelWriter) Hijack() (net.Conn, *bufio.ReadWriter, error) {
	w.committed = true
	return w.U.Hijack()
}

// Length is the number of body bytes accepted so far.
func (w *ModelWriter) Length() int { return w.length }

// Committed reports whether the header was sent.
func (w *ModelWriter) Committed() bool { return w.committed }
