package chain

import (
	"bytes"
	"errors"
	"fmt"
	"io"
	"net/http"
	"sort"
	"strings"
	"sync"

	"github.com/gookit/rux"
)

// OpKind enumerates what a generated handler can do.
type OpKind int

const (
	OpNext OpKind = iota
	OpWrite
	OpStatus
	OpHeader
	OpFlush
	OpSet
	OpAddError
	OpAbort
	OpAbortThen
	OpAbortStatus
	OpAbortStatusMsg
	OpPanic
	OpObserve
	OpHTTPError
	OpRedirect
	OpDefault404
	OpDefault405
	OpWrapResp
	OpReqCtx
	OpSetParam
	OpRespWriteHeader
	OpYield
	OpCopy
	OpSub
	OpForward
	OpHijack
	OpBlob
)

// Op is one step of a handler script.
type Op struct {
	K  OpKind
	N  int
	S  string
	S2 string
}

func (o Op) String() string {
	switch o.K {
	case OpNext:
		return "Next"
	case OpWrite:
		if len(o.S) > 40 {
			return fmt.Sprintf("Write[%d](%d bytes %q...)", o.N, len(o.S), o.S[:8])
		}
		return fmt.Sprintf("Write[%d](%q)", o.N, o.S)
	case OpStatus:
		return fmt.Sprintf("SetStatus(%d)", o.N)
	case OpHeader:
		return fmt.Sprintf("SetHeader(%s,%s)", o.S, o.S2)
	case OpFlush:
		return "Flush"
	case OpSet:
		return fmt.Sprintf("Set(%s,%s)", o.S, o.S2)
	case OpAddError:
		if o.N > 1 {
			return fmt.Sprintf("AddError x%d", o.N)
		}
		return "AddError"
	case OpAbort:
		return "Abort"
	case OpAbortThen:
		return "AbortThen"
	case OpAbortStatus:
		return fmt.Sprintf("AbortWithStatus(%d)", o.N)
	case OpAbortStatusMsg:
		return fmt.Sprintf("AbortWithStatus(%d,%q)", o.N, o.S)
	case OpPanic:
		return fmt.Sprintf("panic(%s%s)", o.S, [...]string{"", ":http.ErrAbortHandler", ":wrapped-ErrAbortHandler", ":string", ":new-error", ":long-string"}[o.N%6])
	case OpObserve:
		return "Observe"
	case OpHTTPError:
		return fmt.Sprintf("http.Error(%d,%q)", o.N, o.S)
	case OpRedirect:
		return fmt.Sprintf("http.Redirect(%d,%q)", o.N, o.S)
	case OpDefault404:
		return "default404"
	case OpDefault405:
		return "default405"
	case OpWrapResp:
		return "WrapResp"
	case OpReqCtx:
		return fmt.Sprintf("WithReqCtxValue(%s)", o.S)
	case OpSetParam:
		return fmt.Sprintf("Params[%s]=%s", o.S, o.S2)
	case OpRespWriteHeader:
		return fmt.Sprintf("Resp.WriteHeader(%d)", o.N)
	case OpYield:
		return "yield"
	case OpCopy:
		return "Copy"
	case OpSub:
		return fmt.Sprintf("SubRequest(%s %q)", o.S, o.S2)
	case OpForward:
		return fmt.Sprintf("Forward(%q)", o.S2)
	case OpHijack:
		return "Hijack"
	case OpBlob:
		if o.S2 == "stream" {
			return fmt.Sprintf("Stream(%d,%q)", o.N, o.S)
		}
		return fmt.Sprintf("Blob(%d,%q)", o.N, o.S)
	}
	return "?"
}

// Script is the behaviour of one generated handler.
type Script struct {
	ID     int
	Name   string
	Ops    []Op
	Silent bool // stands for a built-in handler of rux: emits no trace events
}

func (s *Script) String() string {
	ss := make([]string, len(s.Ops))
	for i, o := range s.Ops {
		ss[i] = o.String()
	}
	return s.Name + "{" + strings.Join(ss, ";") + "}"
}

// NNext counts the Next ops.
func (s *Script) NNext() int {
	n := 0
	for _, o := range s.Ops {
		if o.K == OpNext {
			n++
		}
	}
	return n
}

// PanicValue is what a generated handler throws: unique and comparable by identity.
type PanicValue struct{ Label string }

// PanicKind is the value an OpPanic throws.  Op.N selects its kind: 0 the harness's own pointer value, 1 net/http's
// sentinel http.ErrAbortHandler (a router has no business treating it specially: containment is for any value),
// 2 an error wrapping that sentinel, 3 a plain string, 4 a fresh error value.
func PanicKind(o Op) any {
	switch o.N % 9 {
	case 6:
		return (chan int)(nil) // typed nils are values like any other: the hook finds exactly what was thrown
	case 7:
		return (*strings.Builder)(nil)
	case 8:
		return (*int)(nil)
	case 1:
		return http.ErrAbortHandler
	case 2:
		return fmt.Errorf("%s: %w", o.S, http.ErrAbortHandler)
	case 3:
		return "panic-text:" + o.S
	case 4:
		return errors.New("panic-error:" + o.S)
	case 5:
		return "panic-text:" + o.S + ":" + strings.Repeat("long message ", 40) // > 256 bytes: handed over whole
	}
	return &PanicValue{Label: o.S}
}

// PanicKinds is the generator's menu for Op.N of an OpPanic (the harness's own value most of the time).
var PanicKinds = []int{0, 0, 0, 1, 1, 2, 3, 4, 5, 6, 7, 8}

// Ctx is what a script needs from a context; implemented by the real
// rux.Context (RCtx) and by the model (MCtx).
type Ctx interface {
	Next()
	Abort()
	AbortThen()
	AbortWithStatus(code int, msg ...string)
	IsAborted() bool
	Resp() http.ResponseWriter
	Req() *http.Request
	SetStatus(code int)
	SetHeader(k, v string)
	WriteString(s string)           // Context.WriteString: panics with the write error, like rux
	Blob(status int, data string)   // Context.Blob: status, content type, then the data if there is any
	RequestDigest() string          // what the request getters report: accepted types, query values
	Peek()                          // every read-only getter of the context (what it returns is edited where it is a map): nothing changes
	Stream(status int, data string) // Context.Stream: status, content type, then the reader's bytes (errors are recorded)
	Length() int
	Set(k string, v any)
	Data() map[string]any
	AddError(err error)
	NumErrors() int
	Params() map[string]string
	SetParam(k, v string)
	WrapResp()
	WithReqCtxValue(k, v string)
	ReqCtxValue(k string) any
	ObserveAborted() bool           // false: IsAborted is not recorded for this request (K1 exclusion)
	Yield()                         // scheduling point (deterministic scheduler of C03); no-op in the model
	CopyForLater()                  // c.Copy() kept beyond the request (for a background job); no-op in the model
	Sub(method, path string) string // a nested request served by the same router from inside a handler
	Forward(path string)            // internal forward: the same context is dispatched again for another path (Router.HandleContext)
}

// Trace is the event list of one request.
type Trace struct {
	mu     sync.Mutex
	Ev     []string
	Thrown any // the value the last OpPanic threw
}

// Add appends an event.
func (t *Trace) Add(f string, a ...any) {
	t.mu.Lock()
	t.Ev = append(t.Ev, fmt.Sprintf(f, a...))
	t.mu.Unlock()
}

func (t *Trace) String() string {
	t.mu.Lock()
	defer t.mu.Unlock()
	return strings.Join(t.Ev, "\n")
}

func ab(c Ctx) string {
	if !c.ObserveAborted() {
		return ""
	}
	return fmt.Sprintf(" aborted=%v", c.IsAborted())
}

func dataText(m map[string]any) string {
	var ks []string
	for k := range m {
		if strings.HasPrefix(k, "_") {
			continue // rux's own keys
		}
		ks = append(ks, k)
	}
	sort.Strings(ks)
	var ss []string
	for _, k := range ks {
		ss = append(ss, fmt.Sprintf("%s=%v", k, m[k]))
	}
	return strings.Join(ss, ",")
}

func paramsText(m map[string]string) string {
	var ks []string
	for k := range m {
		ks = append(ks, k)
	}
	sort.Strings(ks)
	var ss []string
	for _, k := range ks {
		ss = append(ss, fmt.Sprintf("%s=%q", k, m[k]))
	}
	return strings.Join(ss, ",")
}

func indent(s string) string {
	return "      | " + strings.ReplaceAll(s, "\n", "\n      | ")
}

// ErrScript is the error AddError records.
var ErrScript = errors.New("script error")

// Run interprets a script against a context, recording events.
func Run(s *Script, c Ctx, tr *Trace) {
	if !s.Silent {
		tr.Add("enter %s%s", s.Name, ab(c))
	}
	for _, o := range s.Ops {
		switch o.K {
		case OpNext:
			c.Next()
		case OpWrite:
			if o.N == 1 { // through the context helper instead of the writer
				c.WriteString(o.S)
				tr.Add("  %s WriteString(%d bytes) length=%d", s.Name, len(o.S), c.Length())
				break
			}
			if o.N == 2 { // io.Copy from a reader without WriteTo: uses the writer's ReadFrom when it has one
				n, err := io.Copy(c.Resp(), io.LimitReader(strings.NewReader(o.S), int64(len(o.S))))
				tr.Add("  %s io.Copy n=%d err=%v length=%d", s.Name, n, err != nil, c.Length())
				break
			}
			n, err := c.Resp().Write([]byte(o.S))
			tr.Add("  %s write n=%d err=%v length=%d", s.Name, n, err != nil, c.Length())
		case OpStatus:
			c.SetStatus(o.N)
		case OpRespWriteHeader:
			c.Resp().WriteHeader(o.N)
		case OpHeader:
			c.SetHeader(o.S, o.S2)
		case OpFlush:
			if f, ok := c.Resp().(http.Flusher); ok {
				f.Flush()
			} else {
				tr.Add("  %s: writer is no Flusher", s.Name)
			}
		case OpSet:
			c.Set(o.S, o.S2)
		case OpAddError:
			for i := 0; i < 1 || i < o.N; i++ { // Op.N > 1: that many errors at once
				c.AddError(fmt.Errorf("%w in %s", ErrScript, s.Name))
			}
		case OpAbort:
			tr.Add("  %s before-abort%s", s.Name, ab(c))
			c.Abort()
			tr.Add("  %s after-abort%s", s.Name, ab(c))
		case OpAbortThen:
			tr.Add("  %s before-abort%s", s.Name, ab(c))
			c.AbortThen()
			tr.Add("  %s after-abort%s", s.Name, ab(c))
		case OpAbortStatus:
			tr.Add("  %s before-abort%s", s.Name, ab(c))
			c.AbortWithStatus(o.N)
			tr.Add("  %s after-abort%s", s.Name, ab(c))
		case OpAbortStatusMsg:
			tr.Add("  %s before-abort%s", s.Name, ab(c))
			c.AbortWithStatus(o.N, o.S)
			tr.Add("  %s after-abort%s", s.Name, ab(c))
		case OpPanic:
			tr.Add("  %s panics", s.Name)
			v := PanicKind(o)
			tr.Thrown = v
			panic(v)
		case OpObserve:
			tr.Add("  %s observes%s data={%s} errors=%d params={%s} request{%s}", s.Name, ab(c), dataText(c.Data()), c.NumErrors(), paramsText(c.Params()), c.RequestDigest())
			c.Peek()
		case OpHTTPError:
			http.Error(c.Resp(), o.S, o.N)
		case OpRedirect:
			http.Redirect(c.Resp(), c.Req(), o.S, o.N)
		case OpDefault404:
			http.NotFound(c.Resp(), c.Req())
		case OpDefault405:
			c.SetHeader("Allow", o.S)
			if c.Req().Method == "OPTIONS" {
				c.SetStatus(200)
			} else {
				http.Error(c.Resp(), "Method not allowed", 405)
			}
		case OpWrapResp:
			c.WrapResp()
		case OpReqCtx:
			c.WithReqCtxValue(o.S, o.S2)
		case OpSetParam:
			c.SetParam(o.S, o.S2)
		case OpYield:
			c.Yield()
		case OpCopy:
			c.CopyForLater()
		case OpSub:
			tr.Add("  %s nested request %s %q ->\n%s", s.Name, o.S, o.S2, indent(c.Sub(o.S, o.S2)))
		case OpHijack:
			// take over the connection (websocket upgrade ...): from now on the router must not touch the header
			if hj, ok := c.Resp().(http.Hijacker); ok {
				_, _, err := hj.Hijack()
				tr.Add("  %s hijacks err=%v", s.Name, err != nil)
			}
		case OpBlob:
			if o.S2 == "stream" {
				c.Stream(o.N, o.S)
				if o.S != "" {
					tr.Add("  %s Stream(%d, %d bytes) length=%d errors=%d", s.Name, o.N, len(o.S), c.Length(), c.NumErrors())
				}
				break
			}
			c.Blob(o.N, o.S)
			tr.Add("  %s Blob(%d, %d bytes)", s.Name, o.N, len(o.S))
		case OpForward:
			tr.Add("  %s forwards to %q", s.Name, o.S2)
			c.Forward(o.S2)
			tr.Add("  %s forward returned", s.Name)
		}
	}
	if !s.Silent {
		tr.Add("leave %s%s", s.Name, ab(c))
	}
}

// ---------------------------------------------------------------- real context

// wrapWriter is what OpWrapResp installs in c.Resp.
type wrapWriter struct {
	http.ResponseWriter
}

// Write marks what goes through the wrapper (upper case), as a compressing or signing wrapper would transform it: a
// wrapper that outlives its request shows in the bytes of the next one.
func (w *wrapWriter) Write(b []byte) (int, error) {
	return w.ResponseWriter.Write(bytes.ToUpper(b))
}

func (w *wrapWriter) Flush() {
	if f, ok := w.ResponseWriter.(http.Flusher); ok {
		f.Flush()
	}
}

type ctxKey string

// RCtx adapts *rux.Context.
type RCtx struct {
	C     *rux.Context
	NoAbt bool
	Y     func()
	St    *ReqState
	SubFn func(method, path string) string
}

func (r *RCtx) Forward(path string) {
	r.C.Req.URL.Path = path
	r.C.Router().HandleContext(r.C)
}

func (r *RCtx) Sub(method, path string) string {
	if r.SubFn == nil {
		return "nested requests disabled"
	}
	return r.SubFn(method, path)
}

func (r *RCtx) CopyForLater() {
	if r.St != nil {
		r.St.AddCopy(r.C.Copy())
		// the handler also hands the map of its values to the job (c.Data()); the job looks at it - and notes
		// something in it - once the request is over
		r.St.AddKept(r.C.Data())
	}
}

func (r *RCtx) Yield() {
	if r.Y != nil {
		r.Y()
	}
}

func (r *RCtx) Next()                                   { r.C.Next() }
func (r *RCtx) Abort()                                  { r.C.Abort() }
func (r *RCtx) AbortThen()                              { r.C.AbortThen() }
func (r *RCtx) AbortWithStatus(code int, msg ...string) { r.C.AbortWithStatus(code, msg...) }
func (r *RCtx) IsAborted() bool                         { return r.C.IsAborted() }
func (r *RCtx) Resp() http.ResponseWriter               { return r.C.Resp }
func (r *RCtx) Req() *http.Request                      { return r.C.Req }
func (r *RCtx) SetStatus(code int)                      { r.C.SetStatus(code) }
func (r *RCtx) SetHeader(k, v string)                   { r.C.SetHeader(k, v) }
func (r *RCtx) WriteString(s string)                    { r.C.WriteString(s) }
func (r *RCtx) Blob(status int, data string)            { r.C.Blob(status, "text/x-blob", []byte(data)) }
func (r *RCtx) Stream(status int, data string) {
	r.C.Stream(status, "text/x-blob", io.LimitReader(strings.NewReader(data), int64(len(data))))
}
func (r *RCtx) Length() int               { return r.C.Length() }
func (r *RCtx) Set(k string, v any)       { r.C.Set(k, v) }
func (r *RCtx) Data() map[string]any      { return r.C.Data() }
func (r *RCtx) AddError(err error)        { r.C.AddError(err) }
func (r *RCtx) NumErrors() int            { return len(r.C.Errors) }
func (r *RCtx) Params() map[string]string { return r.C.Params }
func (r *RCtx) SetParam(k, v string) {
	if r.C.Params == nil {
		r.C.Params = rux.Params{}
	}
	r.C.Params[k] = v
}
func (r *RCtx) WrapResp()                   { r.C.Resp = &wrapWriter{r.C.Resp} }
func (r *RCtx) WithReqCtxValue(k, v string) { r.C.WithReqCtxValue(ctxKey(k), v) }
func (r *RCtx) ReqCtxValue(k string) any    { return r.C.ReqCtxValue(ctxKey(k)) }
func (r *RCtx) ObserveAborted() bool        { return !r.NoAbt }

func (r *RCtx) RequestDigest() string {
	return fmt.Sprintf("accept=%q page=%q query=%q", r.C.AcceptedTypes(), r.C.Query("page"), r.C.QueryValues().Encode())
}

// Peek calls the getters of the context, as logging, metrics or debugging code does anywhere in a chain.
func (r *RCtx) Peek() {
	c := r.C
	_, _, _ = c.Length(), c.StatusCode(), c.IsAborted()
	_ = c.RawWriter()
	_, _ = c.AcceptedTypes(), c.ContentType()
	if vs := c.QueryValues(); vs != nil { // the values handed out are the caller's: it builds a link from them
		vs.Set("page", "edited-by-the-caller")
		vs.Del("token")
		for k := range vs {
			vs[k] = append(vs[k], "appended-by-the-caller")
		}
	}
	_ = c.Query("page")
	_, _ = c.QueryParams("tag")
	_, _, _ = c.Handler(), c.HandlerName(), c.Router()
	_, _ = c.URL(), c.ClientIP()
	_, _, _ = c.Header("X-Any"), c.IsAjax(), c.IsWebSocket()
	_, _ = c.Param("id"), c.Param("file")
	_ = c.FirstError()
	_, _ = c.Get("no-such-key")
	_ = c.SafeGet("no-such-key")
	_ = c.ReqCtxValue("no-such-key")
	_, _ = c.Deadline()
	_, _ = c.Err(), c.Value("no-such-key")
}

// ---------------------------------------------------------------- model context

// MCtx is the model of a request context: a pointer to the next handler not
// yet started, an aborted flag, the reference writer, data, errors, params.
type MCtx struct {
	Chain   []*Script
	P       int
	Aborted bool
	W       *ModelWriter
	resp    http.ResponseWriter
	Request *http.Request
	data    map[string]any
	NErr    int
	Ps      map[string]string
	Tr      *Trace
	NoAbt   bool
	reqVals map[string]string
	SubFn   func(method, path string) string
	FwdFn   func(m *MCtx, path string)
}

func (m *MCtx) Forward(path string) {
	m.Request.URL.Path = path
	if m.FwdFn != nil {
		m.FwdFn(m, path)
	}
}

func (m *MCtx) Sub(method, path string) string {
	if m.SubFn == nil {
		return "nested requests disabled"
	}
	return m.SubFn(method, path)
}

// NewMCtx creates the model context of one request.
func NewMCtx(chain []*Script, w *ModelWriter, req *http.Request, ps map[string]string, tr *Trace) *MCtx {
	return &MCtx{Chain: chain, W: w, resp: w, Request: req, Ps: ps, Tr: tr}
}

func (m *MCtx) Next() {
	for m.P < len(m.Chain) && !m.Aborted {
		h := m.Chain[m.P]
		m.P++
		Run(h, m, m.Tr)
	}
}
func (m *MCtx) Abort()     { m.Aborted = true }
func (m *MCtx) AbortThen() { m.Aborted = true }
func (m *MCtx) AbortWithStatus(code int, msg ...string) {
	if len(msg) == 0 {
		m.resp.WriteHeader(code)
	} else {
		http.Error(m.resp, msg[0], code)
	}
	m.Aborted = true
}
func (m *MCtx) IsAborted() bool           { return m.Aborted }
func (m *MCtx) Resp() http.ResponseWriter { return m.resp }
func (m *MCtx) Req() *http.Request        { return m.Request }
func (m *MCtx) SetStatus(code int)        { m.W.WriteHeader(code) }
func (m *MCtx) SetHeader(k, v string)     { m.resp.Header().Set(k, v) }
func (m *MCtx) Blob(status int, data string) {
	m.resp.WriteHeader(status)
	m.resp.Header().Set("Content-Type", "text/x-blob")
	if len(data) > 0 {
		m.WriteString(data)
	}
}
func (m *MCtx) Stream(status int, data string) {
	m.resp.WriteHeader(status)
	m.resp.Header().Set("Content-Type", "text/x-blob")
	if _, err := io.Copy(m.resp, io.LimitReader(strings.NewReader(data), int64(len(data)))); err != nil {
		m.AddError(err)
	}
}
func (m *MCtx) WriteString(s string) {
	if _, err := m.resp.Write([]byte(s)); err != nil {
		panic(err)
	}
}
func (m *MCtx) Length() int { return m.W.Length() }
func (m *MCtx) Set(k string, v any) {
	if m.data == nil {
		m.data = map[string]any{}
	}
	m.data[k] = v
}
func (m *MCtx) Data() map[string]any      { return m.data }
func (m *MCtx) AddError(err error)        { m.NErr++ }
func (m *MCtx) NumErrors() int            { return m.NErr }
func (m *MCtx) Params() map[string]string { return m.Ps }
func (m *MCtx) SetParam(k, v string) {
	if m.Ps == nil {
		m.Ps = map[string]string{}
	}
	m.Ps[k] = v
}
func (m *MCtx) WrapResp() { m.resp = &wrapWriter{m.resp} }
func (m *MCtx) WithReqCtxValue(k, v string) {
	if m.reqVals == nil {
		m.reqVals = map[string]string{}
	}
	m.reqVals[k] = v
}
func (m *MCtx) ReqCtxValue(k string) any {
	if v, ok := m.reqVals[k]; ok {
		return v
	}
	return nil
}
func (m *MCtx) ObserveAborted() bool { return !m.NoAbt }
func (m *MCtx) Peek()                {}

// RequestDigest is read off the request itself.
func (m *MCtx) RequestDigest() string {
	accept := []string{}
	for _, part := range strings.Split(m.Request.Header.Get("Accept"), ",") {
		if part = strings.TrimSpace(strings.Split(part, ";")[0]); part != "" {
			accept = append(accept, part)
		}
	}
	q := m.Request.URL.Query()
	return fmt.Sprintf("accept=%q page=%q query=%q", accept, q.Get("page"), q.Encode())
}
func (m *MCtx) Yield()        {}
func (m *MCtx) CopyForLater() {}
