package chain

import (
	"fmt"
	"os"
	"runtime"
	"sync"
	"time"

	"github.com/gookit/rux"
)

// Sched is the deterministic scheduler of C03 (DESIGN 2.7): every in-flight
// request runs ServeHTTP in its own goroutine, parks at every OpYield and
// proceeds only when the scheduler wakes it; at most one goroutine runs at any
// time, so an execution is a pure function of the sequence of picks.
type Sched struct {
	mu     sync.Mutex
	wake   map[string]chan struct{}
	events chan schedEvent
	quit   chan struct{}
	wg     sync.WaitGroup
}

type schedEvent struct {
	id   string
	done bool
	out  Outcome
}

// NewSched creates a scheduler.
func NewSched() *Sched {
	return &Sched{wake: map[string]chan struct{}{}, events: make(chan schedEvent), quit: make(chan struct{})}
}

func (s *Sched) park(id string) {
	s.mu.Lock()
	ch := s.wake[id]
	s.mu.Unlock()
	if ch == nil {
		// a handler serving a request the scheduler does not know: let it run, the trace comparison reports it
		return
	}
	select {
	case <-ch:
	case <-s.quit:
		runtime.Goexit()
	}
}

// Yield is called by a handler at a boundary.
func (s *Sched) Yield(id string) {
	select {
	case s.events <- schedEvent{id: id}:
	case <-s.quit:
		runtime.Goexit()
	}
	s.park(id)
}

// Start launches the goroutine of one request; it stays parked until first picked.
func (s *Sched) Start(st *ReqState, r *rux.Router) {
	s.mu.Lock()
	s.wake[st.ID] = make(chan struct{})
	s.mu.Unlock()
	s.wg.Add(1)
	go func() {
		defer s.wg.Done()
		s.park(st.ID)
		out := st.Serve(r)
		select {
		case s.events <- schedEvent{id: st.ID, done: true, out: out}:
		case <-s.quit:
		}
	}()
}

// Step wakes request id and waits until some request reports a boundary or its end.
// A step that does not reach a boundary within the watchdog makes the run inconclusive (exit code 3).
func (s *Sched) Step(id string) (reported string, done bool, out Outcome) {
	s.mu.Lock()
	ch := s.wake[id]
	s.mu.Unlock()
	ch <- struct{}{}
	select {
	case e := <-s.events:
		return e.id, e.done, e.out
	case <-time.After(20 * time.Second):
		fmt.Fprintln(os.Stderr, "VERIF-INCONCLUSIVE: scheduler watchdog: request", id, "did not reach a boundary within 20s")
		os.Exit(3)
	}
	return
}

// Stop releases every parked goroutine and waits for them.
func (s *Sched) Stop() {
	close(s.quit)
	s.wg.Wait()
}
