package c11

import (
	"net/url"
	"testing"

	"github.com/gookit/rux"
)

// D4: white-space-only strings as request path, route path and group prefix.
func TestRegress(t *testing.T) {
	for _, strict := range []bool{false, true} {
		var opts []func(*rux.Router)
		if strict {
			opts = append(opts, rux.StrictLastSlash)
		}
		for _, s := range []string{" ", "   ", "\t", "\n ", " / ", "/ /", ""} {
			r := rux.New(opts...)
			if pv := try(func() { r.GET(s, func(c *rux.Context) {}) }); pv != nil {
				t.Errorf("strict=%v GET(%q) panicked: %v", strict, s, pv)
			}
			if pv := try(func() { r.Group(s, func() { r.POST("/x", func(c *rux.Context) {}) }) }); pv != nil {
				t.Errorf("strict=%v Group(%q) panicked: %v", strict, s, pv)
			}
			if pv := try(func() { r.Match("GET", s) }); pv != nil {
				t.Errorf("strict=%v Match(GET,%q) panicked: %v", strict, s, pv)
			}
			if _, _, pv := serve(r, &url.URL{Path: s}); pv != nil {
				t.Errorf("strict=%v ServeHTTP(%q) panicked: %v", strict, s, pv)
			}
		}
	}
}
