// C11 — registration and lookup normalise paths identically.
package c11

import (
	"fmt"
	"net/http"
	"net/http/httptest"
	"net/url"
	"strings"
	"sync"
	"testing"
	"unicode"

	"github.com/gookit/rux"
	"pgregory.net/rapid"

	"verifharness/ev"
	"verifharness/model"
)

func TestMain(m *testing.M) { ev.Main(m) }

// a core neither starts nor ends with white space or '/'
var coreGen = rapid.OneOf(
	rapid.StringMatching(`[ab]{1,2}`),
	rapid.StringMatching(`[ab.%20é]{1,3}`),
	rapid.StringMatching(`[ab](/[ab.]{1,2}){1,2}`),
	rapid.StringMatching(`[ab] [ab]`),
	rapid.StringMatching(`[ab]%20[ab]`),
	rapid.StringMatching(`[ab]//[ab]`),
	// zero-width characters and the byte order mark are NOT white space: they belong to the path on both sides
	rapid.SampledFrom([]string{"a\u200b", "\ufeffa", "a\u200d", "\u2060b", "a/b\u200c"}),
	// long paths (64-400 bytes): beyond any small bitmap or buffer
	rapid.Map(rapid.IntRange(6, 40), func(n int) string { return strings.Repeat("ab/cdefgh-", n) + "z" }),
	rapid.Just(""),
)

// white space as strings.TrimSpace understands it: ASCII and Unicode (U+0085, U+00A0, U+2003, U+3000)
var wsGen = rapid.SampledFrom([]string{"", "", "", "", " ", "\t", "\n", "  ", "\u00a0", "\u3000", "\u0085", "\u2003 "})

func decorate(t *rapid.T, core string) string {
	lead := strings.Repeat("/", rapid.IntRange(0, 3).Draw(t, "leadSlashes"))
	trail := strings.Repeat("/", rapid.IntRange(0, 3).Draw(t, "trailSlashes"))
	return wsGen.Draw(t, "ws1") + lead + core + trail + wsGen.Draw(t, "ws2")
}

// newRouter hands the options to the router through New or through WithOptions (legal until a route exists).
func newRouter(t *rapid.T, opts []func(*rux.Router)) *rux.Router {
	switch rapid.SampledFrom([]int{0, 0, 1, 2}).Draw(t, "optionsVia") {
	case 1:
		r := rux.New()
		r.WithOptions(opts...)
		return r
	case 2:
		r := rux.New()
		for _, o := range opts {
			r.WithOptions(o)
		}
		return r
	}
	return rux.New(opts...)
}

func try(f func()) (pv any) {
	defer func() { pv = recover() }()
	f()
	return nil
}

func serve(r *rux.Router, u *url.URL, method ...string) (code int, body string, pv any) {
	rec := httptest.NewRecorder()
	m := "GET"
	if len(method) > 0 {
		m = method[0]
	}
	pv = try(func() { r.ServeHTTP(rec, &http.Request{Method: m, URL: u, Header: http.Header{}}) })
	return rec.Code, rec.Body.String(), pv
}

// propStatic: a route registered under one spelling (optionally inside decorated groups) is reached by
// exactly the request spellings with the same normal form.
func propStatic(t *rapid.T) {
	ev.Case()
	strict := rapid.Bool().Draw(t, "strict")
	var opts []func(*rux.Router)
	if strict {
		opts = append(opts, rux.StrictLastSlash)
	}
	r := newRouter(t, opts)
	// group prefixes: non-empty cores; under strict mode without trailing slashes (the statement
	// does not define how a trailing slash of a prefix concatenates)
	ngroups := rapid.IntRange(0, 2).Draw(t, "ngroups")
	var prefixes []string
	modelPrefix := ""
	for i := 0; i < ngroups; i++ {
		core := rapid.StringMatching(`[ab]{1,2}(/[ab])?`).Draw(t, "gcore")
		p := wsGen.Draw(t, "gws1") + strings.Repeat("/", rapid.IntRange(0, 2).Draw(t, "gLead")) + core
		if !strict {
			p += strings.Repeat("/", rapid.IntRange(0, 2).Draw(t, "gTrail"))
		}
		p += wsGen.Draw(t, "gws2")
		prefixes = append(prefixes, p)
		modelPrefix += model.Normalize(p, strict)
	}
	regCore := coreGen.Draw(t, "regCore")
	// an empty core is the index route of the group: N("") = "/", so the full path is N(prefix ++ "/"), which keeps its
	// trailing slash under StrictLastSlash
	reg := decorate(t, regCore)
	if !model.Stable(reg, strict) {
		t.Skip("unstable registered spelling")
	}
	want := model.Normalize(reg, strict)
	if ngroups > 0 {
		want = model.Normalize(modelPrefix+want, strict)
	}
	var route *rux.Route
	register := func() { route = r.GET(reg, func(c *rux.Context) { c.WriteString("hit") }) }
	for i := len(prefixes) - 1; i >= 0; i-- {
		inner, p := register, prefixes[i]
		register = func() { r.Group(p, inner) }
	}
	if pv := try(register); pv != nil {
		t.Fatalf("registration of %q under groups %q panicked: %v", reg, prefixes, pv)
	}
	// options come before routes: switching one on now is refused (the application recovers), and the router keeps
	// normalising the way it was configured
	model.RejectedOptions(r, model.Options{Strict: strict})
	if got := route.Path(); got != want {
		t.Fatalf("strict=%v groups=%q registered %q: Route.Path()=%q, specification gives %q", strict, prefixes, reg, got, want)
	}
	// requests: other decorations of the same full path, and variants
	fullCore := strings.Trim(strings.TrimSpace(want), "/")
	n := rapid.IntRange(1, 6).Draw(t, "nreq")
	for i := 0; i < n; i++ {
		var q string
		switch rapid.IntRange(0, 5).Draw(t, "reqKind") {
		case 0, 1, 2:
			q = decorate(t, fullCore)
			if strict && rapid.Bool().Draw(t, "sameTrail") {
				// keep the registered trailing slashes so that strict mode can match
				q = strings.TrimRight(strings.TrimRightFunc(q, unicode.IsSpace), "/") + want[len(strings.TrimRight(want, "/")):]
			}
		case 3:
			q = decorate(t, fullCore+rapid.SampledFrom([]string{"/a", "a", ".", " b", "%20"}).Draw(t, "suffix"))
		case 4:
			q = decorate(t, coreGen.Draw(t, "otherCore"))
		default:
			q = decorate(t, strings.ToUpper(fullCore))
		}
		ev.Eval()
		// the route allows GET only: a HEAD request reaches it through the HEAD->GET step, which must
		// normalise the path exactly like the direct lookup
		method := rapid.SampledFrom([]string{"GET", "GET", "HEAD"}).Draw(t, "method")
		if method == "HEAD" {
			ev.Class("request:HEAD-served-by-the-GET-route")
		}
		code, body, pv := serve(r, &url.URL{Path: q}, method)
		if pv != nil {
			t.Fatalf("strict=%v registered %q: %s request %q panicked: %v", strict, want, method, q, pv)
		}
		if !model.Stable(q, strict) {
			ev.Class("request:unstable(totality only)")
			continue
		}
		nq := model.Normalize(q, strict)
		reach := nq == want
		hit := code == 200 && body == "hit"
		if reach != hit {
			t.Fatalf("strict=%v groups=%q registered %q (=%q): %s request %q normalises to %q, should reach=%v, got %d %q", strict, prefixes, reg, want, method, q, nq, reach, code, body)
		}
		rt, _, _ := r.Match(method, q)
		if (rt != nil) != reach {
			t.Fatalf("strict=%v registered %q (=%q): Match(%s, %q) route=%v, should reach=%v", strict, reg, want, method, q, rt != nil, reach)
		}
		switch {
		case reach && q != want:
			ev.Class("reach:decorated-spelling")
			ev.NonTrivial(fmt.Sprint(strict, prefixes, reg, q), func() string {
				return fmt.Sprintf("strict=%v groups=%q registered %q -> %q; request %q reaches it", strict, prefixes, reg, want, q)
			})
		case reach:
			ev.Class("reach:canonical")
		case strict && strings.TrimRight(nq, "/") == strings.TrimRight(want, "/"):
			ev.Class("miss:strict-distinguishes-trailing-slash")
			ev.NonTrivial(fmt.Sprint(strict, prefixes, reg, q), func() string {
				return fmt.Sprintf("strict registered %q -> %q; request %q (=%q) must not reach it", reg, want, q, nq)
			})
		default:
			ev.Class("miss:different-core")
		}
	}
}

func TestPropStatic(t *testing.T) { rapid.Check(t, propStatic) }

// propDynamic: the literal part of a dynamic route and the request are normalised alike.
func propDynamic(t *rapid.T) {
	ev.Case()
	strict := rapid.Bool().Draw(t, "strict")
	var opts []func(*rux.Router)
	if strict {
		opts = append(opts, rux.StrictLastSlash)
	}
	if rapid.Bool().Draw(t, "caching") {
		// the cache of matched dynamic routes sits in front of the lookup: it must key on the normalised path too
		opts = append(opts, rux.CachingWithNum(uint16(rapid.IntRange(0, 3).Draw(t, "cacheCap"))))
	}
	r := newRouter(t, opts)
	lit := rapid.StringMatching(`[ab.]{1,2}`).Draw(t, "lit")
	tail := rapid.SampledFrom([]string{"", "/x", "[/x]"}).Draw(t, "tail")
	core := lit + "/{id}" + tail
	if rapid.Bool().Draw(t, "varFirst") {
		core = "{id}/" + lit + tail
	}
	reg := decorate(t, core)
	if strict && strings.HasSuffix(core, "]") {
		// "[/x]/" is an optional part that is not at the end: invalid under strict mode (C13)
		reg = strings.TrimRight(strings.TrimRightFunc(reg, unicode.IsSpace), "/")
	}
	if !model.Stable(reg, strict) {
		t.Skip("unstable")
	}
	want := model.Normalize(reg, strict)
	var route *rux.Route
	if pv := try(func() { route = r.GET(reg, func(c *rux.Context) { c.WriteString("hit:" + c.Param("id")) }) }); pv != nil {
		t.Fatalf("registration of %q panicked: %v", reg, pv)
	}
	if route.Path() != want {
		t.Fatalf("strict=%v registered %q: Route.Path()=%q, specification gives %q", strict, reg, route.Path(), want)
	}
	p, ok := model.Parse(want)
	if !ok {
		t.Fatalf("harness: %q not parsable", want)
	}
	n := rapid.IntRange(1, 5).Draw(t, "nreq")
	var seenQ []string
	var seenHit []bool
	defer func() {
		// the same lookups from several goroutines at once: same answers (normalisation uses no state shared by requests)
		if t.Failed() || len(seenQ) == 0 || rapid.IntRange(0, 11).Draw(t, "concurrentLookups") != 0 {
			return
		}
		var wg sync.WaitGroup
		bad := make(chan string, 4)
		for g := 0; g < 4; g++ {
			wg.Add(1)
			go func(g int) {
				defer wg.Done()
				for k := 0; k < 300; k++ {
					i := (g + k) % len(seenQ)
					if g%2 == 1 && k%2 == 0 {
						// other traffic: another method, another first segment, no route
						if rt, _, _ := r.Match("DELETE", "/zz-other-traffic/x/y"); rt != nil {
							select {
							case bad <- "Match(DELETE,/zz-other-traffic/x/y) found a route under concurrent lookups":
							default:
							}
							return
						}
						continue
					}
					rt, _, _ := r.Match("GET", seenQ[i])
					if (rt != nil) != seenHit[i] {
						select {
						case bad <- fmt.Sprintf("Match(GET,%q) found a route=%v under concurrent lookups, alone %v", seenQ[i], rt != nil, seenHit[i]):
						default:
						}
						return
					}
				}
			}(g)
		}
		wg.Wait()
		select {
		case msg := <-bad:
			t.Fatalf("%s (registered %q)", msg, reg)
		default:
		}
		ev.Class("dynamic:lookups-repeated-concurrently")
	}()
	var earlier []string
	for i := 0; i < n; i++ {
		path, vals, _ := model.GenMatching(t, p)
		q := decorate(t, strings.Trim(path, "/"))
		if strict && strings.HasSuffix(path, "/") {
			q = path
		}
		if len(earlier) > 0 && rapid.IntRange(0, 2).Draw(t, "revisit") == 0 {
			// an earlier request path again, with its trailing slash toggled (strict mode tells the two apart,
			// whatever an earlier request left behind)
			q = rapid.SampledFrom(earlier).Draw(t, "earlier")
			if strings.HasSuffix(q, "/") {
				q = strings.TrimRight(q, "/")
			} else {
				q += "/"
			}
			ev.Class("dynamic:earlier-path-with-toggled-trailing-slash")
		}
		earlier = append(earlier, q)
		ev.Eval()
		method := rapid.SampledFrom([]string{"GET", "GET", "HEAD"}).Draw(t, "method")
		if method == "HEAD" {
			ev.Class("request:HEAD-served-by-the-GET-route")
		}
		code, body, pv := serve(r, &url.URL{Path: q}, method)
		if pv != nil {
			t.Fatalf("%s request %q panicked: %v", method, q, pv)
		}
		if !model.Stable(q, strict) {
			continue
		}
		nq := model.Normalize(q, strict)
		reach := p.Regex().MatchString(nq)
		hit := code == 200 && strings.HasPrefix(body, "hit:")
		if reach != hit {
			t.Fatalf("strict=%v registered %q (=%q): %s request %q normalises to %q, should reach=%v, got %d %q (values %v)", strict, reg, want, method, q, nq, reach, code, body, vals)
		}
		if model.Stable(q, strict) {
			seenQ = append(seenQ, q)
			seenHit = append(seenHit, hit)
		}
		if reach && q != nq {
			ev.Class("dynamic:reach-decorated")
			ev.NonTrivial(fmt.Sprint(strict, reg, q), func() string {
				return fmt.Sprintf("strict=%v registered %q -> %q; request %q reaches it", strict, reg, want, q)
			})
		} else if !reach {
			ev.Class("dynamic:miss")
		}
	}
}

func TestPropDynamic(t *testing.T) { rapid.Check(t, propDynamic) }

// propEncoded: matching uses URL.Path, or URL.EscapedPath() under UseEncodedPath.
func propEncoded(t *rapid.T) {
	ev.Case()
	encoded := rapid.Bool().Draw(t, "useEncodedPath")
	var opts []func(*rux.Router)
	if encoded {
		opts = append(opts, rux.UseEncodedPath)
	}
	r := newRouter(t, opts)
	seg := rapid.SampledFrom([]string{"a b", "a%20b", "a%2Fb", "a/b", "é", "%C3%A9", "a%b", "a+b", "a%2520b"})
	n := rapid.IntRange(1, 4).Draw(t, "nroutes")
	registered := map[string]bool{}
	for i := 0; i < n; i++ {
		p := "/" + seg.Draw(t, "routeSeg")
		if registered[p] {
			continue
		}
		registered[p] = true
		name := p
		r.GET(p, func(c *rux.Context) { c.WriteString(name) })
	}
	model.RejectedOptions(r, model.Options{EncodedPath: encoded}) // too late: refused, nothing changes
	raw := "/" + rapid.SampledFrom([]string{"a%20b", "a%2520b", "a%2Fb", "a/b", "%C3%A9", "é", "a+b", "a%2fb", "a%20b/", "a b"}).Draw(t, "rawSeg")
	u, err := url.ParseRequestURI(raw)
	if err != nil {
		t.Skip("not a request URI")
	}
	ev.Eval()
	used := u.Path
	if encoded {
		used = u.EscapedPath()
	}
	want := model.Normalize(used, false)
	code, body, pv := serve(r, u)
	if pv != nil {
		t.Fatalf("panic %v", pv)
	}
	// the request belongs to the caller: its URL is as it was, and serving the very same URL again gives the same answer
	if u2, _ := url.ParseRequestURI(raw); u2 != nil && (u.Path != u2.Path || u.RawPath != u2.RawPath) {
		t.Fatalf("UseEncodedPath=%v: serving raw %q changed the request's URL to Path=%q RawPath=%q", encoded, raw, u.Path, u.RawPath)
	}
	if code2, body2, _ := serve(r, u); code2 != code || body2 != body {
		t.Fatalf("UseEncodedPath=%v routes %v: raw %q answers %d %q, the same request served again %d %q", encoded, registered, raw, code, body, code2, body2)
	}
	if registered[want] {
		if code != 200 || body != want {
			t.Fatalf("UseEncodedPath=%v routes %v: raw %q (Path %q, EscapedPath %q) should reach %q, got %d %q", encoded, registered, raw, u.Path, u.EscapedPath(), want, code, body)
		}
		ev.Class("encoded:reach")
		if u.Path != u.EscapedPath() {
			ev.NonTrivial(fmt.Sprint(encoded, registered, raw), func() string {
				return fmt.Sprintf("UseEncodedPath=%v routes=%v raw=%q -> %q", encoded, registered, raw, want)
			})
		}
	} else {
		if code != 404 {
			t.Fatalf("UseEncodedPath=%v routes %v: raw %q (Path %q, EscapedPath %q) should be a 404, got %d %q", encoded, registered, raw, u.Path, u.EscapedPath(), code, body)
		}
		ev.Class("encoded:miss")
	}
	// "matching uses the decoded URL path, or the escaped path": the URL's path as it is when the router gets the request.
	// A request that arrived for /pre<raw> (its RequestURI says so) and was handed on by http.StripPrefix carries the
	// rest in its URL: the router answers exactly as for <raw>.
	pre, err := http.NewRequest("GET", "http://example.com/pre"+raw, nil)
	if err != nil {
		return
	}
	pre.RequestURI = "/pre" + raw
	rec := httptest.NewRecorder()
	if pv := try(func() { http.StripPrefix("/pre", r).ServeHTTP(rec, pre) }); pv != nil {
		t.Fatalf("behind StripPrefix: panic %v", pv)
	}
	ev.Eval()
	if rec.Code != code || rec.Body.String() != body {
		t.Fatalf("UseEncodedPath=%v routes %v: raw %q answers %d %q, the same request behind http.StripPrefix(\"/pre\") answers %d %q", encoded, registered, raw, code, body, rec.Code, rec.Body.String())
	}
	ev.Class("encoded:same-answer-behind-StripPrefix")
}

func TestPropEncoded(t *testing.T) { rapid.Check(t, propEncoded) }

// propTotal: normalisation never panics, whatever the string.
func propTotal(t *rapid.T) {
	ev.Case()
	strict := rapid.Bool().Draw(t, "strict")
	var opts []func(*rux.Router)
	if strict {
		opts = append(opts, rux.StrictLastSlash)
	}
	if rapid.Bool().Draw(t, "caching") {
		opts = append(opts, rux.CachingWithNum(2))
	}
	if rapid.Bool().Draw(t, "handle405") {
		opts = append(opts, rux.HandleMethodNotAllowed)
	}
	r := newRouter(t, opts)
	str := rapid.OneOf(
		rapid.StringMatching(`[ /\t\n]{0,4}`),
		rapid.StringMatching(`[ab/ .%\t]{0,6}`),
		rapid.StringOf(rapid.RuneFrom([]rune{' ', '/', 'a', ' ', ' ', '\u0085', '\t', '\r', '\n', 0, 0xfffd})),
		rapid.String(),
	)
	s1, s2, s3 := str.Draw(t, "route"), str.Draw(t, "group"), str.Draw(t, "request")
	ev.Eval()
	if strings.ContainsAny(s1, "{}[]") || strings.ContainsAny(s2, "{}[]") {
		t.Skip("pattern characters: C13's domain")
	}
	if pv := try(func() { r.GET(s1, func(c *rux.Context) {}) }); pv != nil {
		t.Fatalf("GET(%q) panicked: %v", s1, pv)
	}
	if pv := try(func() { r.Group(s2, func() { r.POST(s1, func(c *rux.Context) {}) }) }); pv != nil {
		t.Fatalf("Group(%q){POST(%q)} panicked: %v", s2, s1, pv)
	}
	for _, m := range []string{"GET", "HEAD", "POST", "OPTIONS"} {
		if pv := try(func() { r.Match(m, s3) }); pv != nil {
			t.Fatalf("Match(%s,%q) panicked: %v", m, s3, pv)
		}
		if _, _, pv := serve(r, &url.URL{Path: s3}, m); pv != nil {
			t.Fatalf("%s request with path %q panicked: %v", m, s3, pv)
		}
	}
	if _, _, pv := serve(r, &url.URL{Path: s3}); pv != nil {
		t.Fatalf("ServeHTTP(%q) panicked: %v", s3, pv)
	}
	if strings.TrimSpace(s3) == "" || strings.TrimSpace(s2) == "" {
		ev.Class("total:white-space-only")
		ev.NonTrivial(fmt.Sprintf("%q %q %q", s1, s2, s3), func() string { return fmt.Sprintf("route=%q group=%q request=%q", s1, s2, s3) })
	} else {
		ev.Class("total:other")
	}
}

func TestPropTotal(t *testing.T) { rapid.Check(t, propTotal) }

// propIntercept: InterceptAll(p) resolves every request as a request for p, and p is normalised like any other path -
// under the router's final StrictLastSlash setting, whatever the order of the two options.
func propIntercept(t *rapid.T) {
	ev.Case()
	strict := rapid.Bool().Draw(t, "strict")
	core := coreGen.Filter(func(s string) bool { return s != "" }).Draw(t, "core")
	to := decorate(t, core)
	reg := decorate(t, core)
	if rapid.IntRange(0, 3).Draw(t, "otherCore") == 0 {
		reg = decorate(t, coreGen.Draw(t, "regCore"))
	}
	if !model.Stable(to, strict) || !model.Stable(reg, strict) {
		t.Skip("unstable spelling")
	}
	opts := []func(*rux.Router){rux.InterceptAll(to)}
	if strict {
		if rapid.Bool().Draw(t, "strictFirst") {
			opts = []func(*rux.Router){rux.StrictLastSlash, rux.InterceptAll(to)}
		} else {
			opts = append(opts, rux.StrictLastSlash)
		}
	}
	r := newRouter(t, opts)
	if pv := try(func() { r.GET(reg, func(c *rux.Context) { c.WriteString("hit") }) }); pv != nil {
		t.Fatalf("registration of %q panicked: %v", reg, pv)
	}
	reach := model.Normalize(to, strict) == model.Normalize(reg, strict)
	for i, n := 0, rapid.IntRange(1, 3).Draw(t, "nreq"); i < n; i++ {
		q := decorate(t, coreGen.Draw(t, "anyCore"))
		ev.Eval()
		code, body, pv := serve(r, &url.URL{Path: q})
		if pv != nil {
			t.Fatalf("strict=%v InterceptAll(%q) route %q: request %q panicked: %v", strict, to, reg, q, pv)
		}
		if hit := code == 200 && body == "hit"; hit != reach {
			t.Fatalf("strict=%v InterceptAll(%q)=%q, route %q=%q: request %q should reach=%v, got %d %q", strict, to, model.Normalize(to, strict), reg, model.Normalize(reg, strict), q, reach, code, body)
		}
	}
	if reach && to != reg {
		ev.Class("intercept:reach-through-another-spelling")
		ev.NonTrivial(fmt.Sprint(strict, to, reg), func() string { return fmt.Sprintf("strict=%v InterceptAll(%q) reaches route %q", strict, to, reg) })
	} else if !reach && strings.TrimRight(model.Normalize(to, true), "/") == strings.TrimRight(model.Normalize(reg, true), "/") {
		ev.Class("intercept:strict-distinguishes-trailing-slash")
		ev.NonTrivial(fmt.Sprint(strict, to, reg), func() string { return fmt.Sprintf("strict InterceptAll(%q) must not reach route %q", to, reg) })
	} else if reach {
		ev.Class("intercept:reach-same-spelling")
	} else {
		ev.Class("intercept:miss")
	}
}

func TestPropIntercept(t *testing.T) { rapid.Check(t, propIntercept) }
