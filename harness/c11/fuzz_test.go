package c11

import (
	"net/url"
	"strings"
	"testing"

	"github.com/gookit/rux"

	"verifharness/model"
)

// FuzzNormalise: register one arbitrary string as a static path, request arbitrary spellings.
// Oracle inside the target: never a panic; for stable strings the route is reached iff the normal forms are equal.
func FuzzNormalise(f *testing.F) {
	for _, s := range []string{"", " ", "   ", "/", "//", "/a", "a", "/a/", " /a/ ", "//a//", "/a b", "/a%20b", "/a/ /", "\t", "/\x00", "/\xff", "/é", "/a/b/c", "/../", "/./a"} {
		f.Add(s, s+"/", byte(0))
		f.Add(s, " "+s, byte(1))
	}
	f.Fuzz(func(t *testing.T, reg, req string, bits byte) {
		if len(reg)+len(req) > 400 {
			return
		}
		if strings.ContainsAny(reg, "{}[]") {
			return
		}
		strict := bits&1 != 0
		var opts []func(*rux.Router)
		if strict {
			opts = append(opts, rux.StrictLastSlash)
		}
		if bits&2 != 0 {
			opts = append(opts, rux.CachingWithNum(1))
		}
		r := rux.New(opts...)
		var route *rux.Route
		if pv := try(func() { route = r.GET(reg, func(c *rux.Context) { c.WriteString("hit") }) }); pv != nil {
			t.Fatalf("GET(%q) panicked: %v", reg, pv)
		}
		if model.Stable(reg, strict) && route.Path() != model.Normalize(reg, strict) {
			t.Fatalf("strict=%v GET(%q): Route.Path()=%q, specification %q", strict, reg, route.Path(), model.Normalize(reg, strict))
		}
		for _, q := range []string{req, reg, " " + reg, reg + " ", "/" + reg, reg + "/", "//" + strings.TrimSpace(reg) + "//\n"} {
			code, body, pv := serve(r, &url.URL{Path: q})
			if pv != nil {
				t.Fatalf("strict=%v route %q: request %q panicked: %v", strict, reg, q, pv)
			}
			if !model.Stable(q, strict) || !model.Stable(reg, strict) {
				continue
			}
			reach := model.Normalize(q, strict) == model.Normalize(reg, strict)
			if hit := code == 200 && body == "hit"; hit != reach {
				t.Fatalf("strict=%v route %q (=%q): request %q (=%q) reach=%v but got %d %q", strict, reg, route.Path(), q, model.Normalize(q, strict), reach, code, body)
			}
		}
	})
}
