package c15

import (
	"testing"

	"github.com/gookit/rux"
)

// D13: a value that looks like another placeholder must not be substituted again (map order made this flaky).
func TestRegress(t *testing.T) {
	for i := 0; i < 200; i++ {
		r := rux.New()
		r.AddNamed("u", `/u/{name}/{id:\d+}/{z}`, noop)
		u := r.BuildURL("u", rux.M{"{name}": "{id}", "{id}": "5", "{z}": "{name}", "q": "1"})
		if u.Path != "/u/{id}/5/{name}" {
			t.Fatalf("iteration %d: built %q, want /u/{id}/5/{name}", i, u.Path)
		}
		rt, ps, _ := r.Match("GET", u.Path)
		if rt == nil || rt.Name() != "u" || ps["name"] != "{id}" || ps["id"] != "5" || ps["z"] != "{name}" {
			t.Fatalf("iteration %d: %q routed to %v %v", i, u.Path, rt, ps)
		}
	}
}
