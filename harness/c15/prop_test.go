// C15 — a URL built for a named route is routed back to that route.
package c15

import (
	"fmt"
	"net/url"
	"sort"
	"strconv"
	"strings"
	"testing"

	"github.com/gookit/rux"
	"pgregory.net/rapid"

	"verifharness/ev"
	"verifharness/model"
)

func TestMain(m *testing.M) { ev.Main(m) }

func noop(c *rux.Context) {}

type named struct {
	p      model.Pattern
	full   string // full path incl. group prefix
	name   string
	route  *rux.Route
	prefix string
	idx    int
}

// genValue draws a value accepted by the variable's regex, over an alphabet with space, non-ASCII, % ? # { } and,
// as a deliberate class, the placeholder text of another variable of the same route.
func genValue(t *rapid.T, v *model.Var, others []*model.Var) (string, string) {
	spec := v.Spec()
	full, _ := regexpFull(spec.Re)
	if len(others) > 0 && rapid.IntRange(0, 3).Draw(t, "placeholderValue") == 0 {
		o := rapid.SampledFrom(others).Draw(t, "other")
		for _, cand := range []string{"{" + o.Name + "}", o.String()} {
			if full.MatchString(cand) {
				return cand, "placeholder"
			}
		}
	}
	if rapid.IntRange(0, 2).Draw(t, "collidingValue") == 0 {
		// the literal first segment of other routes as a value: the lookup starts in their bucket
		if cand := rapid.SampledFrom(sharedFirst).Draw(t, "collide"); full.MatchString(cand) {
			return cand, "equals-a-first-segment-of-other-routes"
		}
	}
	if rapid.IntRange(0, 1).Draw(t, "hostileAlphabet") == 0 {
		val := rapid.StringMatching(`[a-c %?#{}é1+&=;:@.~-]{1,4}`).Draw(t, "hval")
		if full.MatchString(val) {
			return val, "reserved-chars"
		}
	}
	return model.GenValue(t, v), "plain"
}

// first segments shared by several routes; also offered as values
var sharedFirst = []string{"en", "b"}

func regexpFull(re string) (interface{ MatchString(string) bool }, error) {
	return model.MustRe(`^(?:` + re + `)$`), nil
}

func prop(t *rapid.T) {
	ev.Case()
	strict := rapid.Bool().Draw(t, "strict")
	var opts []func(*rux.Router)
	if strict {
		opts = append(opts, rux.StrictLastSlash)
	}
	if rapid.Bool().Draw(t, "caching") {
		opts = append(opts, rux.CachingWithNum(uint16(rapid.IntRange(0, 2).Draw(t, "cap"))))
	}
	r := rux.New(opts...)
	n := rapid.IntRange(1, 6).Draw(t, "nroutes")
	var routes []*named
	latest := map[string]*named{} // naming model: the route most recently registered under a name
	table := &model.Table{Opts: model.Options{Strict: strict}}
	for i := 0; i < n; i++ {
		// a pattern without optional parts.  Usually below a unique literal first segment (the routes do not overlap);
		// otherwise as generated - it may begin with a variable and overlap with the other routes, or it sits below
		// one of two shared first segments, which the values of leading variables collide with (see genValue).
		// For overlapping routes the reference resolver says whether the built URL belongs to the named route.
		p := model.GenPattern(t, model.GenCfg{MaxSegs: 3, MaxOpt: 1, RichLits: true})
		p.Opt, p.TrailSlash = nil, false
		if strict && rapid.IntRange(0, 3).Draw(t, "trailingSlash") == 0 {
			// under StrictLastSlash a trailing slash belongs to the route: the built URL has to keep it
			p.TrailSlash = true
			ev.Class("route:trailing-slash-under-strict-mode")
		}
		shape := rapid.IntRange(0, 5).Draw(t, "shape")
		if len(p.Segs) == 0 {
			shape = 5 // the index route of a group keeps a trailing slash under StrictLastSlash (C11/C12's business)
		}
		switch shape {
		case 0:
			ev.Class("route:as-generated(may begin with a variable)")
		case 1:
			p.Segs = append([]model.Part{{Pre: rapid.SampledFrom(sharedFirst).Draw(t, "sharedFirst")}}, p.Segs...)
			ev.Class("route:below-a-shared-first-segment")
		default:
			p.Segs = append([]model.Part{{Pre: fmt.Sprintf("r%d", i)}}, p.Segs...)
		}
		nr := &named{p: p, name: fmt.Sprintf("n%d", rapid.IntRange(0, 3).Draw(t, "name"))}
		text := p.String()
		// every naming call takes the name with blanks around it as well (they are trimmed)
		pad := func(n string) string {
			switch rapid.IntRange(0, 5).Draw(t, "namePadding") {
			case 0:
				ev.Class("name-given-with-blanks-around-it")
				return n + " "
			case 1:
				ev.Class("name-given-with-blanks-around-it")
				return "\t" + n + " "
			}
			return n
		}
		reg := func() {
			switch rapid.IntRange(0, 4).Draw(t, "namingAPI") {
			case 0:
				nr.route = r.AddNamed(pad(nr.name), text, noop)
			case 1:
				nr.route = r.AddRoute(rux.NewNamedRoute(pad(nr.name), text, noop))
			case 2:
				nr.route = rux.NamedRoute(" "+nr.name+" ", text, noop, "GET")
				model.ObserveRoute(nr.route) // the prepared route is printed / asked for its URL before it is attached
				nr.route.AttachTo(r)
			case 3:
				nr.route = r.GET(text, noop)
				nr.route.NamedTo(pad(nr.name), r)
			default:
				// named at registration, renamed afterwards: both names refer to it
				nr.route = r.AddNamed(pad(nr.name), text, noop)
				latest[nr.name] = nr
				nr.name = fmt.Sprintf("n%d", rapid.IntRange(0, 3).Draw(t, "rename"))
				nr.route.NamedTo(pad(nr.name), r)
			}
		}
		if rapid.IntRange(0, 3).Draw(t, "inGroup") == 0 {
			nr.prefix = "/" + rapid.StringMatching(`g[a-c]`).Draw(t, "group")
			r.Group(nr.prefix, reg)
			p.Segs = append([]model.Part{{Pre: nr.prefix[1:]}}, p.Segs...)
			nr.p = p
		} else {
			reg()
		}
		nr.full = nr.p.String()
		latest[nr.name] = nr
		// a registration under the same name that the router refuses (a method it does not know): the application
		// recovers, and the name still refers to the route that was accepted
		if rapid.IntRange(0, 3).Draw(t, "refusedReRegistration") == 0 {
			name := nr.name
			model.TryCall(func() { r.AddRoute(rux.NewNamedRoute(name, "/zz-refused/{id}", noop, "FETCH")) })
			model.TryCall(func() { r.AddNamed(name, "/zz-refused", nil) })
			ev.Class("refused-registration-under-an-existing-name")
		}
		routes = append(routes, nr)
		table.Routes = append(table.Routes, model.RouteDef{P: nr.p, Methods: []string{"GET"}, Idx: i})
		nr.idx = i
		// an earlier route claims a name again through NamedTo - its own current name (which another route may have
		// taken meanwhile) or a different one; from then on that name refers to it
		if len(routes) >= 2 && rapid.IntRange(0, 3).Draw(t, "reclaim") == 0 {
			old := routes[rapid.IntRange(0, len(routes)-2).Draw(t, "reclaimWho")]
			name := old.route.Name()
			if rapid.Bool().Draw(t, "reclaimOtherName") {
				name = fmt.Sprintf("n%d", rapid.IntRange(0, 3).Draw(t, "reclaimName"))
			}
			if name != "" {
				old.route.NamedTo(pad(name), r)
				old.name = name
				latest[name] = old
				ev.Class("name-reclaimed-by-NamedTo")
			}
		}
	}
	// GetRoute(name)
	var names []string
	for name := range latest {
		names = append(names, name)
	}
	sort.Strings(names)
	for _, name := range names {
		want := latest[name]
		got := r.GetRoute(name)
		if got == nil || got != want.route {
			t.Fatalf("GetRoute(%q) is not the route most recently registered under that name (%s)", name, want.full)
		}
	}
	var sharedBuilder *rux.BuildRequestURL
	for _, name := range names {
		nr := latest[name]
		if nr.route.Path() != nr.full {
			t.Fatalf("harness: path %q vs %q", nr.route.Path(), nr.full)
		}
		vars := nr.p.Vars()
		vals := map[string]string{}
		classes := map[string]bool{}
		skip := false
		for i, v := range vars {
			var others []*model.Var
			for j, o := range vars {
				if j != i {
					others = append(others, o)
				}
			}
			val, class := genValue(t, v, others)
			vals[v.Name] = val
			classes[class] = true
		}
		built := nr.p.Build(vals, 0)
		if !model.Stable(built, strict) || model.Normalize(built, strict) != built {
			ev.Class("skipped:built-path-not-stable-under-normalisation")
			skip = true
		}
		if skip {
			continue
		}
		// arguments: variables keyed "{name}", extras become query parameters
		extras := map[string]string{}
		var extraKeys []string
		for i, k := 0, rapid.IntRange(0, 2).Draw(t, "nextras"); i < k; i++ {
			ek := rapid.SampledFrom([]string{"q", "page", "x y", "ü"}).Draw(t, "extraKey")
			if _, dup := extras[ek]; !dup {
				extraKeys = append(extraKeys, ek)
			}
			extras[ek] = rapid.StringMatching(`[a-c &=?#é1]{0,4}`).Draw(t, "extraVal")
		}
		var u *url.URL
		style := rapid.IntRange(0, 2).Draw(t, "argStyle")
		if len(vars)+len(extras) == 0 {
			style = 3
		}
		intVal := ""
		var multi []string
		// values may also be given as non-strings (they are stringified): decimal values are passed as int
		asAny := func(v string) any {
			if n, err := strconv.Atoi(v); err == nil && strconv.Itoa(n) == v && len(v) < 9 {
				switch len(v) % 4 {
				case 0:
					ev.Class("value:passed-as-float64(as decoded from JSON)")
					return float64(n)
				case 1:
					ev.Class("value:passed-as-int64-or-uint")
					if n >= 0 {
						return uint(n)
					}
					return int64(n)
				}
				ev.Class("value:passed-as-int")
				return n
			}
			if len(v)%3 == 0 {
				ev.Class("value:passed-as-[]byte")
				return []byte(v)
			}
			return v
		}
		switch style {
		case 0:
			m := rux.M{}
			for k, v := range vals {
				m["{"+k+"}"] = asAny(v)
			}
			for k, v := range extras {
				m[k] = v
			}
			u = r.BuildURL(name, m)
			// the application keeps its argument map and builds the same URL again later: same result
			if again := r.BuildURL(name, m); again.String() != u.String() {
				t.Fatalf("route %q = %s: BuildURL with the same rux.M gives %q the first and %q the second time", name, nr.full, u.String(), again.String())
			}
		case 1:
			var kv []any
			for _, v := range vars {
				kv = append(kv, "{"+v.Name+"}", asAny(vals[v.Name]))
			}
			for _, k := range extraKeys {
				kv = append(kv, k, extras[k])
			}
			if len(kv) == 2 { // a single pair is still the key/value style
				u = r.BuildRequestURL(name, kv...)
			} else {
				u = r.BuildURL(name, kv...)
			}
		case 2:
			m := rux.M{}
			for k, v := range vals {
				m["{"+k+"}"] = asAny(v) // the builder stringifies its values like the other two styles do
			}
			q := url.Values{}
			for k, v := range extras {
				q.Add(k, v)
			}
			// the builder takes url.Values: a key may carry several values
			if rapid.Bool().Draw(t, "multiValued") {
				multi = rapid.SliceOfN(rapid.StringMatching(`[a-c &=]{0,3}`), 2, 3).Draw(t, "multiValues")
				q["tag"] = append([]string{}, multi...)
			}
			// the application keeps one builder and uses it for every URL it builds
			if sharedBuilder == nil {
				sharedBuilder = rux.NewBuildRequestURL()
			} else {
				ev.Class("builder-object-used-again-for-another-build")
			}
			u = r.BuildURL(name, sharedBuilder.Params(m).Queries(q))
		default:
			// without arguments - twice: the first result belongs to the caller, who edits it in place
			first := r.BuildURL(name)
			first.Path += "/edited-by-the-caller"
			first.RawQuery = "edited=1"
			u = r.BuildURL(name)
			ev.Class("built-twice,first-result-edited-by-the-caller")
		}
		_ = intVal
		ev.Eval()
		ctx := fmt.Sprintf("route %q = %s, values %q, extras %q, argument style %d: built %q", name, nr.full, vals, extras, style, u.String())
		if u.Path != built {
			t.Fatalf("path %q, substitution of the values gives %q: %s", u.Path, built, ctx)
		}
		reparsed, err := url.Parse(u.String())
		if err != nil {
			t.Fatalf("built URL does not parse: %v: %s", err, ctx)
		}
		// the route table may hold another route that takes this path first (C01's rules); the round trip is
		// claimed for URLs that belong to the named route
		dup := false
		for _, o := range routes {
			dup = dup || (o != nr && o.full == nr.full)
		}
		if dup {
			// two registrations of one pattern: which of them serves the path is not this property's business
			ev.Class("skipped:pattern-registered-twice")
			continue
		}
		if res := table.Resolve("GET", built); res.Route != nr.idx {
			ev.Class("skipped:built-path-belongs-to-another-route")
			continue
		} else if res.NMatch > 1 {
			ev.Class("built-path-matched-by-several-routes,named-route-wins")
		}
		for _, path := range []string{u.Path, reparsed.Path} {
			rt, ps, _ := r.Match("GET", path)
			if rt == nil || rt.Name() != nr.route.Name() || rt.Path() != nr.full {
				got := "no route"
				if rt != nil {
					got = rt.Name() + " " + rt.Path()
				}
				t.Fatalf("requesting %q is dispatched to %s: %s", path, got, ctx)
			}
			if nr.p.UniqueDecomposition() {
				if len(ps) != len(vals) {
					t.Fatalf("parameters %v, values given %v: %s", ps, vals, ctx)
				}
				for k, v := range vals {
					if ps[k] != v {
						t.Fatalf("parameter %s=%q, value given %q: %s", k, ps[k], v, ctx)
					}
				}
			} else if err := model.CheckParams(nr.p, path, ps); !nr.p.IsStatic() && err != nil {
				t.Fatalf("%v: %s", err, ctx)
			}
		}
		q := reparsed.Query()
		if multi != nil {
			if got := q["tag"]; strings.Join(got, "|") != strings.Join(multi, "|") {
				t.Fatalf("multi-valued query parameter tag=%q, given %q: %s", got, multi, ctx)
			}
			delete(q, "tag")
			ev.Class("multi-valued-query")
		}
		if len(q) != len(extras) {
			t.Fatalf("query %v, extras given %v: %s", q, extras, ctx)
		}
		for k, v := range extras {
			if got := q[k]; len(got) != 1 || got[0] != v {
				t.Fatalf("query parameter %q=%q, given %q: %s", k, got, v, ctx)
			}
		}
		for c := range classes {
			ev.Class("value:" + c)
		}
		ev.Class(fmt.Sprintf("vars=%d", len(vars)))
		if len(vars) >= 2 || classes["reserved-chars"] || classes["placeholder"] {
			ev.NonTrivial(ctx, func() string { return ctx })
		}
	}
	if len(latest) < len(routes) {
		ev.Class("name-registered-twice")
	}
}

func TestProp(t *testing.T) { rapid.Check(t, prop) }

var _ = strings.TrimSpace
