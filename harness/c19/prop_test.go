// C19 — response helpers emit the given status, content type and a decodable body.
package c19

import (
	"bytes"
	"encoding/json"
	"encoding/xml"
	"errors"
	"fmt"
	"io"
	"math"
	"net/http"
	"net/http/httptest"
	"reflect"
	"strings"
	"testing"
	"testing/iotest"

	"github.com/gookit/rux"
	"github.com/gookit/rux/pkg/render"
	"pgregory.net/rapid"

	"verifharness/ev"
)

func TestMain(m *testing.M) { ev.Main(m) }

const (
	ctText  = "text/plain; charset=utf-8"
	ctHTML  = "text/html; charset=utf-8"
	ctJSON  = "application/json; charset=utf-8"
	ctJSONP = "application/javascript; charset=utf-8"
	ctXML   = "application/xml; charset=utf-8"
)

// Item is the tagged struct used for XML (and JSON) bodies.
type Item struct {
	XMLName xml.Name `xml:"item" json:"-"`
	ID      int      `xml:"id,attr" json:"id"`
	Title   string   `xml:"title" json:"title"`
	Tags    []string `xml:"tags>tag" json:"tags"`
	Ok      bool     `xml:"ok" json:"ok"`
}

func xmlSafe(s string) string {
	return strings.Map(func(r rune) rune {
		if r == 0x9 || r == 0xA || (r >= 0x20 && r <= 0xD7FF) || (r >= 0xE000 && r < 0xFFFD) || (r >= 0x10000 && r <= 0x10FFFF) {
			return r
		}
		return 'x'
	}, s)
}

var strGen = rapid.OneOf(
	rapid.StringMatching(`[a-c]{0,5}`),
	rapid.SampledFrom([]string{"", "<b>x</b>", "a&b", "\"q\"", "é中🙂", "line\nbreak", "tab\t", "</script>", " ", "'", "\\", "\x00", "\x7f"}),
	rapid.String(),
)

func genJSONValue(t *rapid.T, depth int) any {
	k := rapid.IntRange(0, 7).Draw(t, "jsonKind")
	if depth >= 3 && k >= 6 {
		k = 0
	}
	switch k {
	case 0, 1:
		return strGen.Draw(t, "s")
	case 2:
		return float64(rapid.IntRange(-1000000, 1000000).Draw(t, "n"))
	case 3:
		return rapid.Float64Range(-1e9, 1e9).Draw(t, "f")
	case 4:
		return rapid.Bool().Draw(t, "b")
	case 5:
		return nil
	case 6:
		n := rapid.IntRange(0, 3).Draw(t, "len")
		out := make([]any, n)
		for i := range out {
			out[i] = genJSONValue(t, depth+1)
		}
		return out
	default:
		n := rapid.IntRange(0, 3).Draw(t, "len")
		out := map[string]any{}
		for i := 0; i < n; i++ {
			out[strGen.Draw(t, "key")] = genJSONValue(t, depth+1)
		}
		return out
	}
}

func genItem(t *rapid.T) Item {
	return Item{ID: rapid.IntRange(-9999, 9999).Draw(t, "id"), Title: xmlSafe(strGen.Draw(t, "title")),
		Tags: rapid.SliceOfN(rapid.Map(strGen, xmlSafe), 0, 3).Draw(t, "tags"), Ok: rapid.Bool().Draw(t, "ok")}
}

func normItem(i Item) Item {
	i.XMLName = xml.Name{}
	if len(i.Tags) == 0 {
		i.Tags = nil
	}
	return i
}

func genUnencodable(t *rapid.T, forXML bool) (any, string) {
	if forXML {
		switch rapid.IntRange(0, 2).Draw(t, "badXML") {
		case 0:
			return map[string]any{"a": 1}, "map"
		case 1:
			return make(chan int), "chan"
		default:
			return func() {}, "func"
		}
	}
	switch rapid.IntRange(0, 3).Draw(t, "badJSON") {
	case 0:
		return make(chan int), "chan"
	case 1:
		return func() {}, "func"
	case 2:
		return math.NaN(), "NaN"
	default:
		return map[string]any{"x": []any{1, math.Inf(1)}}, "nested-Inf"
	}
}

type result struct {
	rec    *httptest.ResponseRecorder
	nErr   int
	pv     any
	retErr error
}

// callSite says where in a request the helper under test is called: 0 the route's handler, 1 the OnPanic hook after
// the handler panicked, 2 a NotFound handler, 3 a global middleware that aborts afterwards.  The helpers' contract is
// the same at every site.  It is drawn by the property (propHelpers) and stays 0 elsewhere.
var callSite int

// earlierStatus is a status some earlier code of the request recorded (SetStatus) before the helper is called; 0 = none.
var earlierStatus int

// earlierCT is a Content-Type something earlier in the request left in the header.  The context helpers that
// announce their own type (Text, HTML, HTMLString, JSONBytes, Blob, Stream) replace it; it is set for those only
// (the pkg/render renderers behind JSON, JSONP, XML keep a type that is already there - the other half of C19).
var earlierCT string

var callSiteNames = []string{"route-handler", "OnPanic-hook", "NotFound-handler", "aborting-global-middleware", "HandlerFunc-in-a-ServeMux"}

func run(headers map[string]string, accept string, f func(c *rux.Context) error) result {
	var res result
	r := rux.New()
	do := func(c *rux.Context) {
		// logging / metrics code has looked at the context first (read-only getters)
		_, _, _ = c.Length(), c.StatusCode(), c.IsAborted()
		_, _, _ = c.RawWriter(), c.AcceptedTypes(), c.ContentType()
		for k, v := range headers {
			c.SetHeader(k, v)
		}
		if earlierStatus != 0 {
			c.SetStatus(earlierStatus) // a status recorded earlier in the request: the helper's own status replaces it
		}
		if earlierCT != "" {
			c.SetHeader("Content-Type", earlierCT) // left there by an earlier, abandoned answer (a failed render ...)
		}
		res.retErr = f(c)
		res.nErr = len(c.Errors)
	}
	path := "/x"
	var direct http.Handler
	switch callSite {
	case 1:
		r.OnPanic = do
		r.GET("/x", func(c *rux.Context) { panic("handler failed before anything was written") })
	case 2:
		r.NotFound(do)
		r.GET("/x", func(c *rux.Context) {})
		path = "/no-such-route"
	case 3:
		r.Use(func(c *rux.Context) { do(c); c.Abort() })
		r.GET("/x", func(c *rux.Context) { c.WriteString("must not run") })
	case 4:
		// the handler is mounted as a plain http.Handler (HandlerFunc.ServeHTTP), outside any router
		direct = rux.HandlerFunc(do)
	default:
		r.GET("/x", do)
	}
	res.rec = httptest.NewRecorder()
	req := httptest.NewRequest("GET", path, nil)
	if accept != "" {
		req.Header.Set("Accept", accept)
	}
	func() {
		defer func() { res.pv = recover() }()
		if direct != nil {
			mux := http.NewServeMux()
			mux.Handle("/x", direct)
			mux.ServeHTTP(res.rec, req)
			return
		}
		r.ServeHTTP(res.rec, req)
	}()
	// the header map belongs to the response's owner; an owner that edits the values in place (after copying what the
	// checks below look at) must not reach any later response
	live := res.rec.Header()
	res.rec.HeaderMap = live.Clone() // what the checks look at
	for k, vs := range live {
		for i := range vs {
			vs[i] = "edited-in-place-by-the-owner-of-an-earlier-response(" + k + ")"
		}
	}
	return res
}

func jsonEqual(body []byte, want any) error {
	var got any
	if err := json.Unmarshal(body, &got); err != nil {
		return fmt.Errorf("body %q is not JSON: %v", body, err)
	}
	// compare through a canonical re-encoding of the expected value
	wb, _ := json.Marshal(want)
	var wantAny any
	_ = json.Unmarshal(wb, &wantAny)
	if !reflect.DeepEqual(got, wantAny) {
		return fmt.Errorf("body %q decodes to %#v, value given %#v", body, got, wantAny)
	}
	return nil
}

func propHelpers(t *rapid.T) {
	ev.Case()
	callSite = rapid.SampledFrom([]int{0, 0, 0, 1, 2, 3, 4}).Draw(t, "callSite")
	earlierStatus = rapid.SampledFrom([]int{0, 0, 0, 202, 404, 500}).Draw(t, "earlierStatus")
	defer func() { callSite, earlierStatus = 0, 0 }()
	ev.Class("helper-called-from:" + callSiteNames[callSite])
	status := rapid.OneOf(rapid.SampledFrom([]int{200, 201, 202, 206, 400, 404, 418, 500, 503, 599}), rapid.IntRange(200, 599)).Draw(t, "status")
	helper := rapid.SampledFrom([]string{"Text", "HTML", "HTMLString", "JSON", "JSONBytes", "JSONP", "XML", "Blob", "Stream", "NoContent", "Redirect", "HTTPError", "JSON-unencodable", "XML-unencodable", "JSONP-unencodable", "ShouldRender", "ShouldRender", "Respond"}).Draw(t, "helper")
	switch helper {
	case "Text", "HTML", "HTMLString", "JSONBytes", "Blob", "Stream":
		earlierCT = rapid.SampledFrom([]string{"", "", "application/problem+json", "text/csv"}).Draw(t, "earlierContentType")
	}
	defer func() { earlierCT = "" }()
	ev.Eval()
	ev.Class("helper:" + helper)
	var res result
	var wantCT string
	wantStatus := status
	var checkBody func(b []byte) error
	escaping := false
	switch helper {
	case "Text", "HTML", "HTMLString":
		s := strGen.Draw(t, "text")
		escaping = strings.ContainsAny(s, "<>&\"") || !isASCII(s)
		wantCT = map[string]string{"Text": ctText, "HTML": ctHTML, "HTMLString": ctHTML}[helper]
		res = run(nil, "", func(c *rux.Context) error {
			switch helper {
			case "Text":
				c.Text(status, s)
			case "HTML":
				c.HTML(status, []byte(s))
			default:
				c.HTMLString(status, s)
			}
			return nil
		})
		checkBody = func(b []byte) error {
			if string(b) != s {
				return fmt.Errorf("body %q, given %q", b, s)
			}
			return nil
		}
	case "JSON", "JSONP":
		var v any
		if rapid.Bool().Draw(t, "struct") {
			v = genItem(t)
		} else {
			v = genJSONValue(t, 0)
		}
		escaping = true
		cb := rapid.StringMatching(`[a-zA-Z_][a-zA-Z0-9_.]{0,8}`).Draw(t, "callback")
		if helper == "JSON" {
			wantCT = ctJSON
			res = run(nil, "", func(c *rux.Context) error { c.JSON(status, v); return nil })
			checkBody = func(b []byte) error { return jsonEqual(b, v) }
		} else {
			wantCT = ctJSONP
			res = run(nil, "", func(c *rux.Context) error { c.JSONP(status, cb, v); return nil })
			checkBody = func(b []byte) error {
				s := string(b)
				if !strings.HasPrefix(s, cb+"(") || !strings.HasSuffix(s, ");") {
					return fmt.Errorf("body %q is not wrapped as %s(...);", s, cb)
				}
				return jsonEqual([]byte(s[len(cb)+1:len(s)-2]), v)
			}
		}
	case "JSONBytes":
		v := genJSONValue(t, 0)
		bs, _ := json.Marshal(v)
		wantCT = ctJSON
		res = run(nil, "", func(c *rux.Context) error { c.JSONBytes(status, bs); return nil })
		checkBody = func(b []byte) error {
			if !bytes.Equal(b, bs) {
				return fmt.Errorf("body %q, given %q", b, bs)
			}
			return nil
		}
	case "XML":
		it := genItem(t)
		indent := rapid.SampledFrom([]string{"", "", "  ", "\t"}).Draw(t, "indent")
		escaping = strings.ContainsAny(it.Title, "<>&\"'")
		wantCT = ctXML
		res = run(nil, "", func(c *rux.Context) error {
			if indent == "" {
				c.XML(status, it)
			} else {
				c.XML(status, it, indent)
			}
			return nil
		})
		checkBody = func(b []byte) error {
			if !bytes.HasPrefix(b, []byte(xml.Header)) {
				return fmt.Errorf("body %q lacks the XML header", b)
			}
			var got Item
			if err := xml.Unmarshal(b, &got); err != nil {
				return fmt.Errorf("body %q is not XML: %v", b, err)
			}
			if !reflect.DeepEqual(normItem(got), normItem(it)) {
				return fmt.Errorf("body %q decodes to %+v, given %+v", b, normItem(got), normItem(it))
			}
			return nil
		}
	case "Blob", "Stream":
		data := rapid.SliceOfN(rapid.Byte(), 0, 40).Draw(t, "bytes")
		wantCT = rapid.SampledFrom([]string{"application/octet-stream", "image/png", "text/csv; charset=utf-8"}).Draw(t, "ct")
		// readers differ in how they deliver their last bytes: alone, or together with io.EOF / an error
		readerKind := "bytes.Reader"
		if helper == "Stream" {
			readerKind = rapid.SampledFrom([]string{"bytes.Reader", "DataErrReader", "OneByteReader", "HalfReader", "data-with-error", "data-then-error"}).Draw(t, "reader")
		}
		wantErrs := 0
		res = run(nil, "", func(c *rux.Context) error {
			if helper == "Blob" {
				c.Blob(status, wantCT, data)
				return nil
			}
			var rd io.Reader = bytes.NewReader(data)
			switch readerKind {
			case "DataErrReader":
				rd = iotest.DataErrReader(rd)
			case "OneByteReader":
				rd = iotest.OneByteReader(rd)
			case "HalfReader":
				rd = iotest.HalfReader(rd)
			case "data-with-error":
				rd = &failingReader{data: data, together: true}
				wantErrs = 1
			case "data-then-error":
				rd = &failingReader{data: data}
				wantErrs = 1
			}
			c.Stream(status, wantCT, rd)
			if len(c.Errors) != wantErrs {
				return fmt.Errorf("Stream from a %s: %d entries in Context.Errors, want %d", readerKind, len(c.Errors), wantErrs)
			}
			c.Errors = c.Errors[:0]
			return nil
		})
		ev.Class("stream-reader:" + readerKind)
		checkBody = func(b []byte) error {
			if res.retErr != nil {
				return res.retErr
			}
			if !bytes.Equal(b, data) {
				return fmt.Errorf("body %q, reader (%s) delivered %q", b, readerKind, data)
			}
			return nil
		}
	case "NoContent":
		wantStatus = 204
		res = run(nil, "", func(c *rux.Context) error { c.NoContent(); return nil })
		checkBody = func(b []byte) error {
			if len(b) != 0 {
				return fmt.Errorf("NoContent wrote %q", b)
			}
			return nil
		}
	case "Redirect":
		code := rapid.SampledFrom([]int{301, 302, 303, 307, 308}).Draw(t, "code")
		target := "/" + rapid.StringMatching(`[a-c]{1,3}(/[a-c]{1,3}){0,2}`).Draw(t, "target") // a clean path: http.Redirect cleans others
		wantStatus = code
		def := rapid.Bool().Draw(t, "defaultCode")
		if def {
			wantStatus = 301
		}
		res = run(nil, "", func(c *rux.Context) error {
			if def {
				c.Redirect(target)
			} else {
				c.Redirect(target, code)
			}
			return nil
		})
		checkBody = func(b []byte) error {
			if loc := res.rec.Header().Get("Location"); loc != target {
				return fmt.Errorf("Location %q, given %q", loc, target)
			}
			return nil
		}
	case "HTTPError":
		msg := rapid.StringMatching(`[a-c <>&]{0,10}`).Draw(t, "msg")
		status = rapid.SampledFrom([]int{400, 401, 403, 404, 500, 502, 503}).Draw(t, "errStatus")
		wantStatus, wantCT = status, ctText
		res = run(nil, "", func(c *rux.Context) error { c.HTTPError(msg, status); return nil })
		checkBody = func(b []byte) error {
			if strings.TrimSuffix(string(b), "\n") != msg {
				return fmt.Errorf("body %q, message %q", b, msg)
			}
			return nil
		}
	case "ShouldRender", "Respond":
		// the generic entry points: status given, a renderer of pkg/render, the encoding failure as returned error
		// (ShouldRender) or in Context.Errors (Respond) - whatever unrelated error the context already holds
		it := genItem(t)
		var v any = it
		bad := rapid.IntRange(0, 2).Draw(t, "unencodable") == 0
		kind := rapid.SampledFrom([]string{"json", "xml", "jsonp"}).Draw(t, "renderer")
		if bad {
			v, _ = genUnencodable(t, kind == "xml")
		}
		earlier := rapid.Bool().Draw(t, "earlierError")
		var rd render.Renderer = render.JSONRenderer{}
		wantCT = ctJSON
		switch kind {
		case "xml":
			rd, wantCT = render.XMLRenderer{}, ctXML
		case "jsonp":
			rd, wantCT = render.JSONPRenderer{Callback: "cb"}, ctJSONP
		}
		var returned error
		nAfter := 0
		res = run(nil, "", func(c *rux.Context) error {
			if earlier {
				c.AddError(errors.New("an unrelated earlier error"))
			}
			if helper == "ShouldRender" {
				returned = c.ShouldRender(status, v, rd)
			} else {
				c.Respond(status, v, rd)
			}
			nAfter = len(c.Errors)
			c.Errors = c.Errors[:0]
			return nil
		})
		base := 0
		if earlier {
			base = 1
		}
		ctxs := fmt.Sprintf("%s(%s) unencodable=%v earlierError=%v: returned=%v errors=%d status=%d body=%q", helper, kind, bad, earlier, returned, nAfter, res.rec.Code, res.rec.Body.String())
		if res.pv != nil {
			t.Fatalf("panic %v: %s", res.pv, ctxs)
		}
		switch {
		case helper == "ShouldRender" && bad && returned == nil:
			t.Fatalf("encoding failure not returned: %s", ctxs)
		case helper == "ShouldRender" && !bad && returned != nil:
			t.Fatalf("successful render returns an error: %s", ctxs)
		case helper == "ShouldRender" && bad && earlier && returned.Error() == "an unrelated earlier error":
			t.Fatalf("the returned error is not the encoding failure: %s", ctxs)
		case helper == "Respond" && bad && nAfter != base+1:
			t.Fatalf("encoding failure not reported through Context.Errors: %s", ctxs)
		case helper == "Respond" && !bad && nAfter != base:
			t.Fatalf("successful render adds an error: %s", ctxs)
		}
		if bad {
			ev.NonTrivial(ctxs, func() string { return ctxs })
			return
		}
		checkBody = func(b []byte) error {
			switch kind {
			case "json":
				return jsonEqual(b, v)
			case "jsonp":
				sb := string(b)
				if !strings.HasPrefix(sb, "cb(") || !strings.HasSuffix(sb, ");") {
					return fmt.Errorf("not wrapped as cb(...);")
				}
				return jsonEqual([]byte(sb[3:len(sb)-2]), v)
			}
			var got Item
			if err := xml.Unmarshal(b, &got); err != nil || !reflect.DeepEqual(normItem(got), normItem(it)) {
				return fmt.Errorf("decodes to %+v (%v), given %+v", normItem(got), err, normItem(it))
			}
			return nil
		}
		escaping = earlier
	default: // unencodable values: reported through the error list, never a panic
		forXML := helper == "XML-unencodable"
		v, kind := genUnencodable(t, forXML)
		res = run(nil, "", func(c *rux.Context) error {
			switch helper {
			case "JSON-unencodable":
				c.JSON(status, v)
			case "JSONP-unencodable":
				c.JSONP(status, "cb", v)
			default:
				c.XML(status, v)
			}
			return nil
		})
		if res.pv != nil {
			t.Fatalf("%s(%s): panic %v", helper, kind, res.pv)
		}
		if res.nErr == 0 {
			t.Fatalf("%s(%s): encoding failure not reported through Context.Errors (status %d body %q)", helper, kind, res.rec.Code, res.rec.Body.String())
		}
		ev.NonTrivial(helper+kind+fmt.Sprint(status), func() string { return helper + " " + kind })
		return
	}
	ctx := fmt.Sprintf("%s status=%d: got %d Content-Type=%q body=%q", helper, status, res.rec.Code, res.rec.Header().Get("Content-Type"), res.rec.Body.String())
	if res.pv != nil {
		t.Fatalf("panic %v: %s", res.pv, ctx)
	}
	if res.nErr != 0 {
		t.Fatalf("unexpected entries in Context.Errors: %s", ctx)
	}
	if res.rec.Code != wantStatus {
		t.Fatalf("status %d, want %d: %s", res.rec.Code, wantStatus, ctx)
	}
	if wantCT != "" && res.rec.Header().Get("Content-Type") != wantCT {
		t.Fatalf("Content-Type %q, documented %q: %s", res.rec.Header().Get("Content-Type"), wantCT, ctx)
	}
	if err := checkBody(res.rec.Body.Bytes()); err != nil {
		t.Fatalf("%v: %s", err, ctx)
	}
	if escaping {
		ev.NonTrivial(ctx, func() string { return ctx })
	}
}

func TestPropHelpers(t *testing.T) { rapid.Check(t, propHelpers) }

// failingReader delivers its data and then fails - either together with the last bytes or on the next call.
type failingReader struct {
	data     []byte
	together bool
	done     bool
}

func (f *failingReader) Read(p []byte) (int, error) {
	if f.done {
		return 0, errors.New("source failed")
	}
	n := copy(p, f.data)
	f.data = f.data[n:]
	if len(f.data) == 0 {
		f.done = true
		if f.together {
			return n, errors.New("source failed")
		}
	}
	return n, nil
}

func isASCII(s string) bool {
	for _, r := range s {
		if r > 127 {
			return false
		}
	}
	return true
}

// propRender: the renderers of pkg/render never override a Content-Type the caller has set, and report encoding failures.
func propRender(t *rapid.T) {
	ev.Case()
	fn := rapid.SampledFrom([]string{"JSON", "JSONIndented", "JSONP", "XML", "XMLPretty", "Text", "Plain", "TextBytes", "HTML", "HTMLBytes", "Blob"}).Draw(t, "renderer")
	preset := ""
	if rapid.Bool().Draw(t, "presetContentType") {
		preset = rapid.SampledFrom([]string{"application/vnd.api+json", "text/x-custom", "application/octet-stream", "text/plain"}).Draw(t, "preset")
	}
	rec := httptest.NewRecorder()
	if preset != "" {
		rec.Header().Set("Content-Type", preset)
	}
	it := genItem(t)
	s := strGen.Draw(t, "text")
	bad := rapid.IntRange(0, 5).Draw(t, "unencodable") == 0
	var v any = it
	var err error
	var pv any
	documented := ""
	func() {
		defer func() { pv = recover() }()
		switch fn {
		case "JSON", "JSONIndented", "JSONP":
			if bad {
				v, _ = genUnencodable(t, false)
			}
			documented = ctJSON
			switch fn {
			case "JSON":
				err = render.JSON(rec, v)
			case "JSONIndented":
				err = render.JSONIndented(rec, v)
			default:
				documented = ctJSONP
				err = render.JSONP("cb", v, rec)
			}
		case "XML", "XMLPretty":
			if bad {
				v, _ = genUnencodable(t, true)
			}
			documented = ctXML
			if fn == "XML" {
				err = render.XML(rec, v)
			} else {
				err = render.XMLPretty(rec, v)
			}
		case "Text", "Plain", "TextBytes":
			bad, documented = false, ctText
			switch fn {
			case "Text":
				err = render.Text(rec, s)
			case "Plain":
				err = render.Plain(rec, s)
			default:
				err = render.TextBytes(rec, []byte(s))
			}
		case "HTML", "HTMLBytes":
			bad, documented = false, ctHTML
			if fn == "HTML" {
				err = render.HTML(rec, s)
			} else {
				err = render.HTMLBytes(rec, []byte(s))
			}
		default:
			bad, documented = false, "image/png"
			err = render.Blob(rec, "image/png", []byte(s))
		}
	}()
	ev.Eval()
	ctx := fmt.Sprintf("render.%s preset=%q unencodable=%v: Content-Type=%q err=%v body=%q", fn, preset, bad, rec.Header().Get("Content-Type"), err, rec.Body.String())
	if pv != nil {
		t.Fatalf("panic %v: %s", pv, ctx)
	}
	want := documented
	if preset != "" {
		want = preset
	}
	if got := rec.Header().Get("Content-Type"); got != want {
		t.Fatalf("Content-Type %q, want %q: %s", got, want, ctx)
	}
	if bad {
		if err == nil {
			t.Fatalf("encoding failure not reported: %s", ctx)
		}
		ev.Class("render:unencodable")
	} else if err != nil {
		t.Fatalf("unexpected error: %s", ctx)
	} else {
		body := rec.Body.Bytes()
		var derr error
		switch fn {
		case "JSON", "JSONIndented":
			derr = jsonEqual(body, v)
		case "JSONP":
			b := string(body)
			if !strings.HasPrefix(b, "cb(") || !strings.HasSuffix(b, ");") {
				derr = fmt.Errorf("not wrapped")
			} else {
				derr = jsonEqual([]byte(b[3:len(b)-2]), v)
			}
		case "XML", "XMLPretty":
			var got Item
			if derr = xml.Unmarshal(body, &got); derr == nil && !reflect.DeepEqual(normItem(got), normItem(it)) {
				derr = fmt.Errorf("decodes to %+v", normItem(got))
			}
		default:
			if string(body) != s {
				derr = fmt.Errorf("body differs from %q", s)
			}
		}
		if derr != nil {
			t.Fatalf("%v: %s", derr, ctx)
		}
	}
	if preset != "" {
		ev.Class("render:preset-content-type")
		ev.NonTrivial(ctx, func() string { return ctx })
	}
}

func TestPropRender(t *testing.T) { rapid.Check(t, propRender) }

// propAuto: content negotiation picks the first supported type listed in Accept.
var supported = map[string]string{"application/json": ctJSON, "text/plain": ctText, "application/xml": ctXML, "text/xml": ctXML}

func propAuto(t *rapid.T) {
	ev.Case()
	// text/html is accepted by Auto without rendering anything; the statement does not say what it should do: not generated
	entry := rapid.SampledFrom([]string{"application/json", "text/plain", "application/xml", "text/xml", "image/png", "*/*", "application/x-yaml", "application/jsonx", "text/*"})
	n := rapid.IntRange(0, 4).Draw(t, "nAccept")
	var parts, types []string
	for i := 0; i < n; i++ {
		e := entry.Draw(t, "type")
		types = append(types, e)
		e = rapid.SampledFrom([]string{"", " ", "  "}).Draw(t, "ws") + e + rapid.SampledFrom([]string{"", ";q=0.9", "; q=0.1", ";charset=utf-8", " "}).Draw(t, "param")
		parts = append(parts, e)
	}
	accept := strings.Join(parts, ",")
	it := genItem(t)
	var v any = it
	kind := rapid.SampledFrom([]string{"struct", "string", "bytes"}).Draw(t, "value")
	s := strGen.Draw(t, "text")
	switch kind {
	case "string":
		v = s
	case "bytes":
		v = []byte(s)
	}
	rec := httptest.NewRecorder()
	req := httptest.NewRequest("GET", "/x", nil)
	if accept != "" {
		req.Header.Set("Accept", accept)
	}
	var err error
	var pv any
	func() {
		defer func() { pv = recover() }()
		err = render.Auto(rec, req, v)
	}()
	ev.Eval()
	first := ""
	pos := -1
	for i, ty := range types {
		if _, ok := supported[ty]; ok {
			first, pos = ty, i
			break
		}
	}
	if n == 0 {
		first = "text/plain" // documented fallback
	}
	ctx := fmt.Sprintf("Accept=%q value=%s: err=%v Content-Type=%q body=%q", accept, kind, err, rec.Header().Get("Content-Type"), rec.Body.String())
	if pv != nil {
		t.Fatalf("panic %v: %s", pv, ctx)
	}
	if first == "" {
		if err == nil {
			t.Fatalf("no supported type in Accept but no error: %s", ctx)
		}
		ev.Class("auto:none-supported")
		return
	}
	if (first == "application/xml" || first == "text/xml") && kind != "struct" {
		// a bare string / byte slice has no XML element name; whatever encoding/xml does is not rux's concern
		ev.Class("auto:xml-of-non-struct(not asserted)")
		return
	}
	if err != nil {
		t.Fatalf("first supported type is %q but Auto failed: %s", first, ctx)
	}
	if got := rec.Header().Get("Content-Type"); got != supported[first] {
		t.Fatalf("first supported type is %q, rendered as %q: %s", first, got, ctx)
	}
	body := rec.Body.Bytes()
	var derr error
	switch first {
	case "application/json":
		derr = jsonEqual(body, jsonView(v))
	case "text/plain":
		if kind == "struct" {
			derr = jsonEqual(body, v)
		} else if string(body) != s {
			derr = fmt.Errorf("text body differs from %q", s)
		}
	default:
		var got Item
		if derr = xml.Unmarshal(body, &got); derr == nil && !reflect.DeepEqual(normItem(got), normItem(it)) {
			derr = fmt.Errorf("decodes to %+v", normItem(got))
		}
	}
	if derr != nil {
		t.Fatalf("%v: %s", derr, ctx)
	}
	ev.Class("auto:" + first)
	if pos > 0 {
		ev.Class("auto:first-supported-is-not-first-entry")
		ev.NonTrivial(ctx, func() string { return ctx })
	} else if strings.ContainsAny(accept, "; ") {
		ev.NonTrivial(ctx, func() string { return ctx })
	}
}

func jsonView(v any) any { return v }

func TestPropAuto(t *testing.T) { rapid.Check(t, propAuto) }

var _ = http.StatusOK
