// C09 — a panicking handler is contained and leaves the router healthy.
package c09

import (
	"fmt"
	"net/http"
	"net/http/httptest"
	"strings"
	"testing"

	"github.com/gookit/rux"
	"github.com/gookit/rux/pkg/handlers"
	"pgregory.net/rapid"

	"verifharness/chain"
	"verifharness/ev"
	"verifharness/model"
)

func TestMain(m *testing.M) { ev.Main(m) }

func genHook(t *rapid.T, w *chain.World) (*chain.Script, string) {
	switch rapid.IntRange(0, 4).Draw(t, "hook") {
	case 0:
		return nil, "none"
	case 1:
		return w.NewScript("onpanic"), "does-nothing"
	case 2:
		return w.NewScript("onpanic", chain.Op{K: chain.OpStatus, N: rapid.SampledFrom([]int{500, 503, 400}).Draw(t, "hookCode")}), "status"
	case 3:
		return w.NewScript("onpanic", chain.Op{K: chain.OpStatus, N: rapid.SampledFrom([]int{500, 503}).Draw(t, "hookCode")},
			chain.Op{K: chain.OpWrite, S: "oops"}), "status+body"
	default:
		return w.NewScript("onpanic", chain.Op{K: chain.OpHTTPError, N: 500, S: "internal"}), "http.Error"
	}
}

func prop(t *rapid.T) {
	ev.Case()
	w := chain.NewWorld()
	w.CancelEvery = 3 // every third request's context is done already (client gone, deadline passed): a panic is a panic
	opts := model.Options{NotAllowed: rapid.Bool().Draw(t, "handle405")}
	cfg := chain.ProgCfg{
		MaxDepth: rapid.IntRange(0, 2).Draw(t, "maxDepth"), MaxMw: 2, MaxStmts: 4, Fallbacks: true, Dynamic: true,
		Script: chain.ScriptCfg{Writes: true, Data: true, Abort: 5, Panic: rapid.SampledFrom([]int{3, 6, 12}).Draw(t, "panicRate")},
	}
	prog := chain.GenProgram(t, w, opts, cfg)
	hook, hookKind := genHook(t, w)
	prog.Hooks.OnPanic = hook
	if rapid.IntRange(0, 3).Draw(t, "onError") == 0 {
		ops := []chain.Op{{K: chain.OpStatus, N: 500}}
		if rapid.Bool().Draw(t, "onErrorPanics") {
			ops = append(ops, chain.Op{K: chain.OpPanic, S: "onerror"})
		}
		prog.Hooks.OnError = w.NewScript("onerror", ops...)
	}
	pm := prog.Model()
	if len(pm.Routes) == 0 {
		t.Skip("no routes")
	}
	r := prog.Apply(w)
	addNestRoutes(r)
	reqs := chain.Requests(t, pm, 2)
	// a history: every probe, some of them repeated, so that requests follow panics
	n := rapid.IntRange(len(reqs), len(reqs)+4).Draw(t, "nreq")
	panicked := false
	var lastCtx *rux.Context
	for i := 0; i < n && len(reqs) > 0; i++ {
		q := reqs[i%len(reqs)]
		if i >= len(reqs) {
			q = reqs[rapid.IntRange(0, len(reqs)-1).Draw(t, "again")]
		}
		chainS, ps, res := pm.Expect(q[0], q[1])
		st := w.NewRequest(q[0], q[1])
		entry := "ServeHTTP"
		if rapid.IntRange(0, 5).Draw(t, "viaHandleContext") == 0 {
			entry = "HandleContext" // the other dispatch entry point: the same containment applies
			ev.Class("entry:HandleContext")
		}
		out := st.ServeVia(r, entry)
		want, _ := chain.ModelDispatch(chainS, pm.Hooks, chain.NewRec(), st.Req, ps, false)
		ev.Eval()
		ctx := fmt.Sprintf("request %d via %s: %s %q (%s) hook=%s\nprogram:\n%sscripts:\n%s", i, entry, q[0], q[1], res.Kind, hookKind, prog, prog.Scripts())
		if d := chain.Diff(out, want); d != "" {
			t.Fatalf("%s\n%s", d, ctx)
		}
		thrown := st.Tr.Thrown
		if thrown != nil {
			ev.Class("request:panics hook=" + hookKind)
			if hook != nil {
				if out.Escaped != nil {
					t.Fatalf("panic escaped ServeHTTP although OnPanic is installed\n%s", ctx)
				}
				if st.NRecovered != 1 {
					t.Fatalf("OnPanic ran %d times\n%s", st.NRecovered, ctx)
				}
				if st.Recovered != thrown {
					t.Fatalf("value under CTXRecoverResult is %v, thrown was %v\n%s", st.Recovered, thrown, ctx)
				}
				if err := st.Rec.CheckCommit(); err != nil {
					t.Fatalf("after OnPanic: %v\n%s", err, ctx)
				}
			} else if out.Escaped != thrown {
				t.Fatalf("without OnPanic the panic must propagate unchanged: got %v, thrown %v\n%s", out.Escaped, thrown, ctx)
			}
			// position of the panic
			pos, part := -1, "pre"
			for k, s := range chainS {
				seenNext := false
				for _, o := range s.Ops {
					if o.K == chain.OpNext {
						seenNext = true
					}
					if o.K == chain.OpPanic && strings.Contains(out.Trace, s.Name+" panics") && pos < 0 {
						pos = k
						if seenNext {
							part = "post"
						}
					}
				}
			}
			ev.Class("panic-in:" + part)
			if pos >= 0 && (pos < len(chainS)-1 || part == "post" || hookKind == "status" || hookKind == "status+body") {
				ev.NonTrivial(prog.Scripts()+q[0]+q[1]+hookKind, func() string {
					return fmt.Sprintf("%s %q panics in handler %d of %d (%s part), hook=%s", q[0], q[1], pos, len(chainS), part, hookKind)
				})
			}
			panicked = true
		} else {
			if panicked {
				ev.Class("request:after-a-panic")
				if lastCtx != nil && st.Ctx == lastCtx {
					ev.Class("request:after-a-panic:reuses-pooled-context")
				}
			}
			if out.Escaped == nil {
				if err := st.Rec.CheckCommit(); err != nil {
					t.Fatalf("%v\n%s", err, ctx)
				}
			}
		}
		if st.Ctx != nil {
			lastCtx = st.Ctx
		}
	}
	// the router stays fully usable: a request that issues a nested request (a handler calling ServeHTTP for an
	// internal sub-request) behaves exactly as on a router that never saw a panic
	if panicked && hook != nil {
		w2 := chain.NewWorld()
		twin := prog.Apply(w2)
		addNestRoutes(twin)
		if got, want := nestProbe(r), nestProbe(twin); got != want {
			t.Fatalf("after contained panics a request with a nested sub-request observes\n   %s\non a router that never panicked\n   %s\nprogram:\n%sscripts:\n%s", got, want, prog, prog.Scripts())
		}
		ev.Class("nested-request-probe-after-panic")
	}
}

// addNestRoutes registers an outer route whose handler serves an inner request through the same router.
func addNestRoutes(r *rux.Router) {
	r.GET("/zzinner/{id}", func(c *rux.Context) { c.WriteString("inner:" + c.Param("id")) })
	r.GET("/zznest/{id}", func(c *rux.Context) {
		before := fmt.Sprintf("id=%s path=%s", c.Param("id"), c.Req.URL.Path)
		c.Set("mark", "outer")
		irec := httptest.NewRecorder()
		r.ServeHTTP(irec, httptest.NewRequest("GET", "/zzinner/in", nil))
		mark, _ := c.Get("mark")
		after := fmt.Sprintf("id=%s path=%s mark=%v aborted=%v", c.Param("id"), c.Req.URL.Path, mark, c.IsAborted())
		c.WriteString("outer[" + before + "|" + after + "|inner=" + irec.Body.String() + "]")
	})
}

func nestProbe(r *rux.Router) (out string) {
	defer func() {
		if v := recover(); v != nil {
			out = fmt.Sprintf("panic: %v", v)
		}
	}()
	var ss []string
	for i := 0; i < 3; i++ {
		rec := httptest.NewRecorder()
		r.ServeHTTP(rec, httptest.NewRequest("GET", "/zznest/out", nil))
		ss = append(ss, fmt.Sprintf("%d %s", rec.Code, rec.Body.String()))
	}
	return strings.Join(ss, " ; ")
}

func TestProp(t *testing.T) { rapid.Check(t, prop) }

// propMiddleware: handlers.PanicsHandler() as a chain element. Only the weak claims: nothing escapes and the
// router is healthy afterwards (what runs after its recovery is not stated).
func propMiddleware(t *rapid.T) {
	ev.Case()
	w := chain.NewWorld()
	r := rux.New()
	r.Use(handlers.PanicsHandler())
	n := rapid.IntRange(1, 4).Draw(t, "nhandlers")
	at := rapid.IntRange(0, n-1).Draw(t, "panicAt")
	post := rapid.Bool().Draw(t, "post")
	hs := make([]rux.HandlerFunc, n)
	for i := range hs {
		ops := []chain.Op{{K: chain.OpNext}}
		if i == at {
			if post {
				ops = append(ops, chain.Op{K: chain.OpPanic, S: "x"})
			} else {
				ops = append([]chain.Op{{K: chain.OpPanic, S: "x"}}, ops...)
			}
		}
		hs[i] = w.Handler(w.NewScript("h", ops...))
	}
	r.GET("/p", hs[n-1], hs[:n-1]...)
	okScript := w.NewScript("ok", chain.Op{K: chain.OpWrite, S: "fine"})
	r.GET("/ok/{id}", w.Handler(okScript))
	st := w.NewRequest("GET", "/p")
	ev.Eval()
	if out := st.Serve(r); out.Escaped != nil {
		t.Fatalf("panic escaped through handlers.PanicsHandler(): %v", out.Escaped)
	}
	for i := 0; i < 2; i++ {
		st2 := w.NewRequest("GET", "/ok/7")
		out := st2.Serve(r)
		if out.Escaped != nil || st2.Rec.Body() != "fine" || st2.Rec.EffectiveStatus() != 200 || st2.Rec.CheckCommit() != nil {
			t.Fatalf("router unhealthy after a recovered panic: %s escaped=%v", st2.Rec.Log(), out.Escaped)
		}
		if strings.Contains(out.Trace, "aborted=true") {
			t.Fatalf("request after a recovered panic starts aborted:\n%s", out.Trace)
		}
	}
	ev.Class("PanicsHandler")
	ev.NonTrivial(fmt.Sprint("mw", n, at, post), func() string { return fmt.Sprintf("PanicsHandler + %d handlers, panic in #%d post=%v", n, at, post) })
}

func TestPropMiddleware(t *testing.T) { rapid.Check(t, propMiddleware) }

// propHooks: the hook is whatever Router.OnPanic holds when the panic happens.  Histories over {a request whose handler
// panics - a native handler or a generic http.Handler wrapped by WrapHTTPHandler/WrapHTTPHandlerFunc -, a plain
// request, replacing the hook by another one, removing it, a request dispatched on a context the application owns
// (Init + HandleContext)}.  Oracle: with a hook installed the panic does not leave the dispatch, exactly the
// CURRENT hook runs once and sees the thrown value, and its status is the response; without a hook the thrown value
// reaches the caller unchanged; plain requests answer 200 "fine" throughout and are never served with the
// application's own context.
func propHooks(t *rapid.T) {
	ev.Case()
	r := rux.New()
	var thrown any
	kind := rapid.SampledFrom(chain.PanicKinds).Draw(t, "panicValue")
	boom := func() { thrown = chain.PanicKind(chain.Op{N: kind, S: "x"}); panic(thrown) }
	switch rapid.IntRange(0, 2).Draw(t, "panickingHandlerKind") {
	case 0:
		r.GET("/boom", func(c *rux.Context) { boom() })
	case 1:
		r.GET("/boom", rux.WrapHTTPHandler(http.HandlerFunc(func(http.ResponseWriter, *http.Request) { boom() })))
		ev.Class("panic-in-a-wrapped-http.Handler")
	default:
		r.GET("/boom", func(c *rux.Context) { c.WriteString("unreachable") }, rux.WrapHTTPHandlerFunc(func(http.ResponseWriter, *http.Request) { boom() }))
		ev.Class("panic-in-a-wrapped-http.Handler")
	}
	var lastCtx *rux.Context
	leaked := ""
	r.GET("/ok", func(c *rux.Context) {
		lastCtx = c
		if v, ok := c.Get("reported-by-hook"); ok {
			leaked = fmt.Sprint(v)
		}
		c.Set("plain-request-was-here", true)
		c.WriteString("fine")
	})
	ran := map[int]int{}
	var seen any
	// the hook keeps the values of the failed request (c.Data()) as its panic report and files it later
	type report struct {
		data   map[string]any
		thrown any
	}
	var reports []report
	mkHook := func(id int) rux.HandlerFunc {
		return func(c *rux.Context) {
			ran[id]++
			seen, _ = c.Get(rux.CTXRecoverResult)
			c.Set("reported-by-hook", id)
			reports = append(reports, report{c.Data(), seen})
			c.SetStatus(500 + id)
		}
	}
	defer func() {
		if t.Failed() {
			return
		}
		for i, rp := range reports {
			if rp.data[rux.CTXRecoverResult] != rp.thrown || rp.data["plain-request-was-here"] != nil {
				t.Fatalf("panic report #%d kept by the hook was rewritten by later requests: %v", i, rp.data)
			}
			rp.data["filed"] = true // the reporter notes that it is done with it
		}
		if len(reports) > 0 {
			ev.Class("hook-keeps-the-values-of-the-failed-request")
		}
	}()
	cur := 0 // 0: no hook
	if rapid.Bool().Draw(t, "hookAtStart") {
		cur = 1
		r.OnPanic = mkHook(1)
	}
	nextID := 2
	owned := &rux.Context{}
	steps := rapid.SliceOfN(rapid.SampledFrom([]string{"boom", "boom", "ok", "ok", "replace-hook", "remove-hook", "boom-on-owned-context", "ok-on-owned-context"}), 3, 10).Draw(t, "steps")
	for i, step := range steps {
		ctx := fmt.Sprintf("step %d (%s) of %v, hook in place: #%d, panic value kind %d", i, step, steps, cur, kind)
		switch step {
		case "replace-hook":
			cur = nextID
			nextID++
			r.OnPanic = mkHook(cur)
			ev.Class("hook-replaced-after-use")
			continue
		case "remove-hook":
			cur, r.OnPanic = 0, nil
			continue
		}
		before := map[int]int{}
		for k, v := range ran {
			before[k] = v
		}
		seen, thrown, lastCtx = nil, nil, nil
		rec := httptest.NewRecorder()
		path := "/ok"
		if strings.HasPrefix(step, "boom") {
			path = "/boom"
		}
		req := httptest.NewRequest("GET", path, nil)
		var escaped any
		func() {
			defer func() { escaped = recover() }()
			if strings.HasSuffix(step, "owned-context") {
				owned.Init(rec, req)
				r.HandleContext(owned)
			} else {
				r.ServeHTTP(rec, req)
			}
		}()
		ev.Eval()
		if path == "/ok" {
			if escaped != nil || rec.Code != 200 || rec.Body.String() != "fine" {
				t.Fatalf("plain request answered %d %q escaped=%v: %s", rec.Code, rec.Body.String(), escaped, ctx)
			}
			if leaked != "" {
				t.Fatalf("a plain request found the value a panic hook stored for an EARLIER request (hook #%s): %s", leaked, ctx)
			}
			if !strings.HasSuffix(step, "owned-context") && lastCtx == owned {
				t.Fatalf("a ServeHTTP request was served with the context the application owns: %s", ctx)
			}
			continue
		}
		for id, n := range ran {
			want := before[id]
			if id == cur {
				want++
			}
			if n != want {
				t.Fatalf("hook #%d ran %d times for this request (hook in place: #%d): %s", id, n-before[id], cur, ctx)
			}
		}
		if cur == 0 {
			if escaped == nil || escaped != thrown {
				t.Fatalf("without a hook the thrown value %v must reach the caller, got %v: %s", thrown, escaped, ctx)
			}
			ev.Class("panic-without-hook")
			continue
		}
		if escaped != nil {
			t.Fatalf("the panic left the dispatch although a hook is installed (%v): %s", escaped, ctx)
		}
		if ran[cur] != before[cur]+1 {
			t.Fatalf("the current hook #%d did not run: %s", cur, ctx)
		}
		if seen != thrown {
			t.Fatalf("the hook saw %v under CTXRecoverResult, thrown was %v: %s", seen, thrown, ctx)
		}
		if rec.Code != 500+cur {
			t.Fatalf("status %d, the current hook sets %d: %s", rec.Code, 500+cur, ctx)
		}
		ev.Class("panic-with-hook")
		if cur >= 2 {
			ev.NonTrivial(ctx, func() string { return ctx })
		}
	}
}

func TestPropHooks(t *testing.T) { rapid.Check(t, propHooks) }

// propPanicInOtherHandlerKinds: the handlers behind the registration shortcuts - StaticFunc, StaticFile, Controller,
// Resource actions, NotFound / NotAllowed handlers, every method shortcut - are handlers like any other: a panic in one
// of them reaches the OnPanic hook exactly once, or leaves ServeHTTP when there is none.
type panicCtl struct{}

func (panicCtl) AddRoutes(r *rux.Router) { r.GET("/boom", func(c *rux.Context) { panic("controller") }) }

type panicRes struct{}

func (*panicRes) Index(c *rux.Context) { panic("resource index") }
func (*panicRes) Show(c *rux.Context)  { panic("resource show") }

func propPanicInOtherHandlerKinds(t *rapid.T) {
	ev.Case()
	hook := rapid.Bool().Draw(t, "hookInstalled")
	r := rux.New(rux.HandleMethodNotAllowed)
	ran := 0
	if hook {
		r.OnPanic = func(c *rux.Context) { ran++; c.SetStatus(500) }
	}
	r.StaticFunc("/asset.js", func(c *rux.Context) { panic("static func") })
	r.Controller("/ctl", panicCtl{})
	r.Resource("/", &panicRes{})
	r.NotFound(func(c *rux.Context) { panic("not found handler") })
	r.NotAllowed(func(c *rux.Context) { panic("not allowed handler") })
	shortcuts := map[string]func(string, rux.HandlerFunc, ...rux.HandlerFunc) *rux.Route{"GET": r.GET, "POST": r.POST, "PUT": r.PUT, "PATCH": r.PATCH,
		"DELETE": r.DELETE, "OPTIONS": r.OPTIONS, "HEAD": r.HEAD, "CONNECT": r.CONNECT, "TRACE": r.TRACE}
	for m, f := range shortcuts {
		f("/m/"+strings.ToLower(m), func(c *rux.Context) { panic("shortcut") })
	}
	r.Any("/any", func(c *rux.Context) { panic("any") })
	type probe struct{ m, p string }
	probes := []probe{{"GET", "/asset.js"}, {"GET", "/ctl/boom"}, {"GET", "/panicres"}, {"GET", "/panicres/7"}, {"GET", "/nowhere"}, {"PUT", "/asset.js"}, {"TRACE", "/any"}, {"CONNECT", "/any"}}
	for m := range shortcuts {
		probes = append(probes, probe{m, "/m/" + strings.ToLower(m)})
	}
	q := rapid.SampledFrom(probes).Draw(t, "probe")
	ev.Eval()
	ran = 0
	var escaped any
	rec := httptest.NewRecorder()
	func() {
		defer func() { escaped = recover() }()
		r.ServeHTTP(rec, httptest.NewRequest(q.m, q.p, nil))
	}()
	if hook && (ran != 1 || escaped != nil) {
		t.Fatalf("%s %s: a handler panics, the OnPanic hook ran %d times, panic leaving ServeHTTP: %v (answer %d)", q.m, q.p, ran, escaped, rec.Code)
	}
	if !hook && escaped == nil {
		t.Fatalf("%s %s: a handler panics and no hook is installed, but nothing left ServeHTTP (answer %d %q)", q.m, q.p, rec.Code, rec.Body.String())
	}
	ev.Class("panic-in:" + q.m + " " + q.p)
	ev.NonTrivial(fmt.Sprint(hook, q), func() string { return fmt.Sprintf("hook=%v %s %s", hook, q.m, q.p) })
}

func TestPropPanicInOtherHandlerKinds(t *testing.T) { rapid.Check(t, propPanicInOtherHandlerKinds) }
