package model

import (
	"testing"

	"github.com/gookit/rux"
)

// every call of RejectedCalls is refused by rux, inside and outside a group
func TestRejectedCallsAreRefused(t *testing.T) {
	d := RouteDef{P: MustParse("/a/{id}")}
	for k := 0; k < 5; k++ {
		r := rux.New()
		if !RejectedCalls(r, d, "/a/{id}", k) {
			t.Errorf("call %d accepted", k)
		}
		r.Group("/g", func() {
			if !RejectedCalls(r, d, "/a/{id}", k) {
				t.Errorf("call %d accepted inside a group", k)
			}
		})
		if n := len(r.Routes()); n != 0 {
			t.Errorf("call %d left %d routes", k, n)
		}
	}
}
