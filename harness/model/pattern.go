// Package model is the executable reference model shared by the property
// checks: the documented pattern grammar as an AST, path generators, the
// normaliser specification and the request resolution order.  It is written
// from the documentation and the property statements and shares no code or
// data representation with rux.
package model

import (
	"fmt"
	"regexp"
	"strings"
	"sync"

	"pgregory.net/rapid"
)

// Methods are the nine HTTP methods rux supports.
var Methods = []string{"GET", "POST", "PUT", "PATCH", "DELETE", "OPTIONS", "HEAD", "CONNECT", "TRACE"}

// VarSpec describes one entry of the variable-regex menu.
type VarSpec struct {
	Re         string // regex text as written in the pattern ("" = default)
	SpansSlash bool   // can match a string containing '/'
	CanEmpty   bool   // can match ""
	Small      string // a regex over a small alphabet whose language is a subset of Re (value generator)
}

// CustomRes is the menu of custom variable regexes (DESIGN 2.1).
var CustomRes = []VarSpec{
	{`\d+`, false, false, `[0-9]{1,2}`},
	{`[1-9]\d*`, false, false, `[1-9][0-9]?`},
	{`[a-c]+`, false, false, `[a-c]{1,3}`},
	{`\w+`, false, false, `[a-c1_]{1,3}`},
	{`[a-c]{1,2}`, false, false, `[a-c]{1,2}`},
	{`[1-9]{1,2}`, false, false, `[1-9]{1,2}`},
	{`(?:ab|c)`, false, false, `(?:ab|c)`},
	{`[^.]+`, true, false, `[a-c1/-]{1,3}`},
	{`.+`, true, false, `[a-c1./-]{1,4}`},
	{`[a-c.]*`, false, true, `[a-c.]{0,3}`},
	{`.+\.(?:css|js)`, true, false, `[a-c1./-]{1,3}\.(?:css|js)`},
}

var globalSpecs = map[string]VarSpec{
	"all": {`.*`, true, true, `[a-c1./-]{0,4}`},
	"any": {`[^/]+`, false, false, `[a-c1. _é%-]{1,3}`},
	"num": {`[1-9][0-9]*`, false, false, `[1-9][0-9]?`},
}

var defaultSpec = VarSpec{`[^/]+`, false, false, `[a-c1. _é%-]{1,3}`}

// Var is a path variable.
type Var struct {
	Name string
	Re   string // custom regex, "" = default or global
	Fmt  string // how "name:regex" is spelt between the braces when not compact, e.g. " %s : %s " (rux ignores white space around the name and around the regex of a {name:regex} variable)
}

// Spec returns the menu entry of the variable.
func (v *Var) Spec() VarSpec {
	if v.Re != "" {
		for _, s := range CustomRes {
			if s.Re == v.Re {
				return s
			}
		}
		// unknown custom regex: conservative answers
		return VarSpec{v.Re, true, true, v.Re}
	}
	if s, ok := globalSpecs[v.Name]; ok {
		return s
	}
	return defaultSpec
}

// Regex is the regular expression the variable's value must fully match.
func (v *Var) Regex() string { return v.Spec().Re }

func (v *Var) String() string {
	if v.Fmt != "" && v.Re != "" {
		return "{" + fmt.Sprintf(v.Fmt, v.Name, v.Re) + "}"
	}
	if v.Re != "" {
		return "{" + v.Name + ":" + v.Re + "}"
	}
	return "{" + v.Name + "}"
}

// Part is literal prefix + optional variable + literal suffix; it never contains '/'.
type Part struct {
	Pre  string
	V    *Var
	Post string
}

func (p Part) String() string {
	s := p.Pre
	if p.V != nil {
		s += p.V.String()
	}
	return s + p.Post
}

func (p Part) regex() string {
	s := regexp.QuoteMeta(p.Pre)
	if p.V != nil {
		s += "(" + p.V.Regex() + ")"
	}
	return s + regexp.QuoteMeta(p.Post)
}

// Opt is a trailing optional part: "[" Sep Part ("/" Part)* Next? "]".
type Opt struct {
	Sep   string
	Parts []Part
	Next  *Opt
}

func (o *Opt) String() string {
	if o == nil {
		return ""
	}
	ss := make([]string, len(o.Parts))
	for i, p := range o.Parts {
		ss[i] = p.String()
	}
	return "[" + o.Sep + strings.Join(ss, "/") + o.Next.String() + "]"
}

func (o *Opt) regex() string {
	if o == nil {
		return ""
	}
	ss := make([]string, len(o.Parts))
	for i, p := range o.Parts {
		ss[i] = p.regex()
	}
	return "(?:" + regexp.QuoteMeta(o.Sep) + strings.Join(ss, "/") + o.Next.regex() + ")?"
}

// Pattern is a route pattern of the documented grammar.
type Pattern struct {
	Segs       []Part
	Opt        *Opt
	TrailSlash bool   // pattern text ends in '/', only meaningful under StrictLastSlash, only without Opt
	Raw        string // non-empty: a literal path outside the grammar's alphabet, e.g. "/*" (static)
}

func (p Pattern) String() string {
	if p.Raw != "" {
		return p.Raw
	}
	ss := make([]string, len(p.Segs))
	for i, s := range p.Segs {
		ss[i] = s.String()
	}
	s := "/" + strings.Join(ss, "/") + p.Opt.String()
	if p.TrailSlash && len(p.Segs) > 0 {
		s += "/"
	}
	return s
}

// RegexString is the reference regular expression, built from the AST.
func (p Pattern) RegexString() string {
	if p.Raw != "" {
		return "^" + regexp.QuoteMeta(p.Raw) + "$"
	}
	ss := make([]string, len(p.Segs))
	for i, s := range p.Segs {
		ss[i] = s.regex()
	}
	s := "^/" + strings.Join(ss, "/") + p.Opt.regex()
	if p.TrailSlash && len(p.Segs) > 0 {
		s += "/"
	}
	return s + "$"
}

var (
	reMu    sync.Mutex
	reCache = map[string]*regexp.Regexp{}
	reBytes int
)

// MustRe compiles with a cache.  The cache is bounded (patterns with long random literals would otherwise fill the
// memory of a long campaign): when it holds more than 16 MB of pattern text or 20000 entries it is dropped.
func MustRe(s string) *regexp.Regexp {
	reMu.Lock()
	r, ok := reCache[s]
	reMu.Unlock()
	if ok {
		return r
	}
	r = regexp.MustCompile(s)
	reMu.Lock()
	if reBytes > 16<<20 || len(reCache) > 20000 {
		reCache, reBytes = map[string]*regexp.Regexp{}, 0
	}
	reCache[s] = r
	reBytes += len(s) * 40 // a compiled program is far larger than its source
	reMu.Unlock()
	return r
}

// Regex is the compiled reference regex.
func (p Pattern) Regex() *regexp.Regexp { return MustRe(p.RegexString()) }

// IsStatic: no variable and no optional part.
func (p Pattern) IsStatic() bool {
	if p.Raw != "" {
		return true
	}
	if p.Opt != nil {
		return false
	}
	for _, s := range p.Segs {
		if s.V != nil {
			return false
		}
	}
	return true
}

// IsRegular: dynamic pattern that begins with a complete, non-empty literal first segment followed by '/'.
func (p Pattern) IsRegular() bool {
	if p.IsStatic() {
		return false
	}
	if len(p.Segs) >= 2 {
		return p.Segs[0].V == nil && p.Segs[0].Pre+p.Segs[0].Post != ""
	}
	return false
}

// Tier: 0 static, 1 regular dynamic, 2 other dynamic.
func (p Pattern) Tier() int {
	switch {
	case p.IsStatic():
		return 0
	case p.IsRegular():
		return 1
	}
	return 2
}

// Vars lists the variables in pattern order; mandatory ones first by construction.
func (p Pattern) Vars() []*Var {
	var vs []*Var
	for _, s := range p.Segs {
		if s.V != nil {
			vs = append(vs, s.V)
		}
	}
	for o := p.Opt; o != nil; o = o.Next {
		for _, q := range o.Parts {
			if q.V != nil {
				vs = append(vs, q.V)
			}
		}
	}
	return vs
}

// VarNames lists the variable names.
func (p Pattern) VarNames() []string {
	var ns []string
	for _, v := range p.Vars() {
		ns = append(ns, v.Name)
	}
	return ns
}

// OptDepth is the number of nested optional parts.
func (p Pattern) OptDepth() int {
	n := 0
	for o := p.Opt; o != nil; o = o.Next {
		n++
	}
	return n
}

// Build substitutes values into the pattern with k optional parts present.
// Variables of absent parts are ignored.
func (p Pattern) Build(vals map[string]string, k int) string {
	part := func(q Part) string {
		s := q.Pre
		if q.V != nil {
			s += vals[q.V.Name]
		}
		return s + q.Post
	}
	if p.Raw != "" {
		return p.Raw
	}
	ss := make([]string, len(p.Segs))
	for i, s := range p.Segs {
		ss[i] = part(s)
	}
	out := "/" + strings.Join(ss, "/")
	i := 0
	for o := p.Opt; o != nil && i < k; o, i = o.Next, i+1 {
		ps := make([]string, len(o.Parts))
		for j, q := range o.Parts {
			ps[j] = part(q)
		}
		out += o.Sep + strings.Join(ps, "/")
	}
	if p.TrailSlash && len(p.Segs) > 0 {
		out += "/"
	}
	return out
}

// VarsPresent lists the variables of the mandatory part and of the first k optional parts.
func (p Pattern) VarsPresent(k int) []*Var {
	var vs []*Var
	for _, s := range p.Segs {
		if s.V != nil {
			vs = append(vs, s.V)
		}
	}
	i := 0
	for o := p.Opt; o != nil && i < k; o, i = o.Next, i+1 {
		for _, q := range o.Parts {
			if q.V != nil {
				vs = append(vs, q.V)
			}
		}
	}
	return vs
}

// UniqueDecomposition reports whether every matching path determines the
// variable values: all variables are '/'-free and non-empty, and no stretch
// (text between two '/') that holds a variable is continued by an optional
// part that does not start with '/'.
func (p Pattern) UniqueDecomposition() bool {
	for _, v := range p.Vars() {
		s := v.Spec()
		if s.SpansSlash || s.CanEmpty {
			return false
		}
	}
	curVar := len(p.Segs) > 0 && p.Segs[len(p.Segs)-1].V != nil
	curBoundary := false
	for o := p.Opt; o != nil; o = o.Next {
		if o.Sep == "/" {
			curVar, curBoundary = false, false
		} else {
			curBoundary = true
		}
		curVar = curVar || o.Parts[0].V != nil
		if curVar && curBoundary {
			return false
		}
		if len(o.Parts) > 1 {
			curVar, curBoundary = o.Parts[len(o.Parts)-1].V != nil, false
		}
	}
	return true
}

// StretchVarCounts returns the number of variables in every '/'-free stretch of the pattern text.
func (p Pattern) StretchVarCounts() []int {
	var counts []int
	cur := 0
	for i, s := range p.Segs {
		if i > 0 {
			counts = append(counts, cur)
			cur = 0
		}
		if s.V != nil {
			cur++
		}
	}
	for o := p.Opt; o != nil; o = o.Next {
		if o.Sep == "/" {
			counts = append(counts, cur)
			cur = 0
		}
		for j, q := range o.Parts {
			if j > 0 {
				counts = append(counts, cur)
				cur = 0
			}
			if q.V != nil {
				cur++
			}
		}
	}
	return append(counts, cur)
}

// TokenizerSafe: at most one variable per '/'-free stretch (rux reads "{[^/]+}" greedily)
// and distinct variable names.
func (p Pattern) TokenizerSafe() bool {
	for _, c := range p.StretchVarCounts() {
		if c > 1 {
			return false
		}
	}
	seen := map[string]bool{}
	for _, n := range p.VarNames() {
		if seen[n] {
			return false
		}
		seen[n] = true
	}
	return true
}

// ---------------------------------------------------------------------------
// generators

// GenCfg sizes the pattern generator.
type GenCfg struct {
	MaxSegs  int // mandatory segments (default 3)
	MaxOpt   int // nested optional parts (default 2)
	Strict   bool
	RichLits bool // literals with '.', '-', '%', unicode ...
}

var (
	litPlain = rapid.StringMatching(`[a-c]{1,2}`)
	litRich  = rapid.OneOf(
		rapid.StringMatching(`[a-c]{1,2}`),
		rapid.StringMatching(`[a-c.]{1,3}`),
		rapid.StringMatching(`[a-c1._~%@:,;=!é中-]{1,3}`),
		rapid.StringMatching(`[a-c] [a-c]`),
	)
	litShort = rapid.StringMatching(`[a-c.-]{0,2}`)
	varNames = []string{"id", "name", "x", "y", "z", "all", "any", "num", "k1", "k2"}
)

var litLong = rapid.StringMatching(`[a-c]{60,140}`)

func genLit(t *rapid.T, cfg GenCfg) string {
	if cfg.RichLits && rapid.IntRange(0, 2).Draw(t, "richLit") == 0 {
		if rapid.IntRange(0, 11).Draw(t, "longLit") == 0 {
			return litLong.Draw(t, "lit") // long paths: method+path beyond any small fixed-size buffer
		}
		return litRich.Draw(t, "lit")
	}
	return litPlain.Draw(t, "lit")
}

func genVar(t *rapid.T, used map[string]bool) *Var {
	n := rapid.SampledFrom(varNames).Draw(t, "vname")
	for used[n] {
		n += "9"
	}
	used[n] = true
	v := &Var{Name: n}
	if rapid.IntRange(0, 2).Draw(t, "custom") == 0 {
		v.Re = rapid.SampledFrom(CustomRes).Draw(t, "re").Re
		// white space around the name and the regex is not significant: "{ id : \d+ }" is "{id:\d+}"
		if rapid.IntRange(0, 7).Draw(t, "spacedVar") == 0 {
			v.Fmt = rapid.SampledFrom([]string{" %s : %s ", "%s :%s", "%s: %s", " %s:%s", "%s:%s "}).Draw(t, "spacing")
		}
	}
	return v
}

func genPart(t *rapid.T, cfg GenCfg, used map[string]bool, mayVar bool) Part {
	k := rapid.IntRange(0, 5).Draw(t, "partKind")
	switch {
	case k <= 1 || !mayVar:
		return Part{Pre: genLit(t, cfg)}
	case k <= 3:
		return Part{V: genVar(t, used)}
	default:
		return Part{Pre: litShort.Draw(t, "pre"), V: genVar(t, used), Post: litShort.Draw(t, "post")}
	}
}

func genOpt(t *rapid.T, cfg GenCfg, used map[string]bool, depth int, root bool, stretchHasVar bool) *Opt {
	if depth == 0 {
		return nil
	}
	sep := rapid.SampledFrom([]string{"/", "/", "/", ".", "-", ""}).Draw(t, "sep")
	if root {
		sep = "" // "/[...]"
	}
	if sep == "/" {
		stretchHasVar = false
	}
	o := &Opt{Sep: sep}
	n := 1
	if rapid.IntRange(0, 4).Draw(t, "optMulti") == 0 {
		n = 2
	}
	for i := 0; i < n; i++ {
		p := genPart(t, cfg, used, !stretchHasVar)
		o.Parts = append(o.Parts, p)
		stretchHasVar = stretchHasVar || p.V != nil
		if i+1 < n {
			stretchHasVar = false // the next part starts a new stretch
		}
	}
	o.Next = genOpt(t, cfg, used, depth-1, false, stretchHasVar)
	return o
}

// GenPattern draws a pattern of the documented grammar.
func GenPattern(t *rapid.T, cfg GenCfg) Pattern {
	if cfg.MaxSegs == 0 {
		cfg.MaxSegs = 3
	}
	if cfg.MaxOpt == 0 {
		cfg.MaxOpt = 2
	}
	used := map[string]bool{}
	n := rapid.IntRange(0, cfg.MaxSegs).Draw(t, "nsegs")
	var p Pattern
	for i := 0; i < n; i++ {
		p.Segs = append(p.Segs, genPart(t, cfg, used, true))
	}
	if n == 0 || rapid.IntRange(0, 3).Draw(t, "hasOpt") == 0 {
		if n == 0 && rapid.IntRange(0, 3).Draw(t, "rootOnly") == 0 {
			return p // "/"
		}
		depth := rapid.IntRange(1, cfg.MaxOpt).Draw(t, "optDepth")
		p.Opt = genOpt(t, cfg, used, depth, n == 0, n > 0 && p.Segs[n-1].V != nil)
	}
	if cfg.Strict && p.Opt == nil && n > 0 && rapid.IntRange(0, 5).Draw(t, "trailSlash") == 0 {
		p.TrailSlash = true
	}
	if !p.TokenizerSafe() {
		panic("model: generator produced a pattern outside the tokenizer limits: " + p.String())
	}
	return p
}

func clonePattern(p Pattern) Pattern {
	q := Pattern{TrailSlash: p.TrailSlash, Raw: p.Raw}
	cp := func(x Part) Part {
		if x.V != nil {
			v := *x.V
			x.V = &v
		}
		return x
	}
	for _, s := range p.Segs {
		q.Segs = append(q.Segs, cp(s))
	}
	var co func(o *Opt) *Opt
	co = func(o *Opt) *Opt {
		if o == nil {
			return nil
		}
		n := &Opt{Sep: o.Sep}
		for _, x := range o.Parts {
			n.Parts = append(n.Parts, cp(x))
		}
		n.Next = co(o.Next)
		return n
	}
	q.Opt = co(p.Opt)
	return q
}

func usedNames(p Pattern) map[string]bool {
	m := map[string]bool{}
	for _, n := range p.VarNames() {
		m[n] = true
	}
	return m
}

// GenRelative draws a pattern that overlaps with base: the same pattern, a
// literal turned into a variable, a variable's regex changed, an optional
// tail added or removed, a shared prefix with a new tail, or a catch-all.
func GenRelative(t *rapid.T, cfg GenCfg, base Pattern) Pattern {
	p := genRelative(t, cfg, base)
	if !p.TokenizerSafe() || (p.TrailSlash && !cfg.Strict) {
		return clonePattern(base)
	}
	return p
}

func genRelative(t *rapid.T, cfg GenCfg, base Pattern) Pattern {
	if cfg.MaxOpt == 0 {
		cfg.MaxOpt = 2
	}
	if base.Raw != "" {
		return GenPattern(t, cfg)
	}
	p := clonePattern(base)
	used := usedNames(p)
	switch rapid.IntRange(0, 7).Draw(t, "relKind") {
	case 0: // same again
		return p
	case 1: // literal segment -> variable (when its stretch allows it)
		var idx []int
		for i, s := range p.Segs {
			if s.V == nil {
				if i == len(p.Segs)-1 && p.Opt != nil && p.Opt.Sep != "/" && optStretchHasVar(p.Opt) {
					continue
				}
				idx = append(idx, i)
			}
		}
		if len(idx) == 0 {
			return p
		}
		i := rapid.SampledFrom(idx).Draw(t, "relSeg")
		p.Segs[i] = Part{V: genVar(t, used)}
		return p
	case 2: // variable: change / strip regex
		vs := p.Vars()
		if len(vs) == 0 {
			return p
		}
		v := rapid.SampledFrom(vs).Draw(t, "relVar")
		if v.Re != "" && rapid.Bool().Draw(t, "strip") {
			v.Re = ""
		} else {
			v.Re = rapid.SampledFrom(CustomRes).Draw(t, "re").Re
		}
		return p
	case 3: // variable -> literal
		var idx []int
		for i, s := range p.Segs {
			if s.V != nil {
				idx = append(idx, i)
			}
		}
		if len(idx) == 0 {
			return p
		}
		i := rapid.SampledFrom(idx).Draw(t, "relSeg")
		p.Segs[i] = Part{Pre: genLit(t, cfg)}
		return p
	case 4: // add / drop optional tail
		if p.Opt != nil {
			p.Opt = nil
			return p
		}
		p.TrailSlash = false
		n := len(p.Segs)
		p.Opt = genOpt(t, cfg, used, rapid.IntRange(1, cfg.MaxOpt).Draw(t, "optDepth"), n == 0, n > 0 && p.Segs[n-1].V != nil)
		return p
	case 5: // shared prefix, new tail
		if len(p.Segs) == 0 {
			return GenPattern(t, cfg)
		}
		k := rapid.IntRange(1, len(p.Segs)).Draw(t, "keep")
		q := Pattern{Segs: p.Segs[:k]}
		used = usedNames(q)
		extra := rapid.IntRange(0, 2).Draw(t, "extra")
		for i := 0; i < extra; i++ {
			q.Segs = append(q.Segs, genPart(t, cfg, used, true))
		}
		return q
	case 6: // catch-all
		switch rapid.IntRange(0, 3).Draw(t, "catch") {
		case 0:
			return Pattern{Opt: &Opt{Parts: []Part{{V: &Var{Name: "all"}}}}} // "/[{all}]"
		case 1:
			return Pattern{Segs: []Part{{V: &Var{Name: "all"}}}} // "/{all}"
		case 2:
			return Pattern{Segs: []Part{{V: &Var{Name: "p", Re: `.+`}}}}
		default:
			if len(p.Segs) == 0 {
				return p
			}
			return Pattern{Segs: []Part{p.Segs[0], {V: &Var{Name: "rest", Re: `.+`}}}}
		}
	default:
		return GenPattern(t, cfg)
	}
}

func optStretchHasVar(o *Opt) bool { return o != nil && len(o.Parts) > 0 && o.Parts[0].V != nil }

// GenValue draws a value accepted by the variable's regex.
func GenValue(t *rapid.T, v *Var) string {
	s := v.Spec()
	if rapid.IntRange(0, 5).Draw(t, "fullAlphabet") == 0 {
		return rapid.StringMatching(`^(?:`+s.Re+`)$`).Draw(t, "val")
	}
	return rapid.StringMatching(s.Small).Draw(t, "val")
}

// GenMatching draws values and a number of present optional parts; it returns
// the constructed path, the values and that number.
func GenMatching(t *rapid.T, p Pattern) (path string, vals map[string]string, k int) {
	vals = map[string]string{}
	for _, v := range p.Vars() {
		vals[v.Name] = GenValue(t, v)
	}
	if d := p.OptDepth(); d > 0 {
		k = rapid.IntRange(0, d).Draw(t, "optPresent")
	}
	present := map[string]bool{}
	for _, v := range p.VarsPresent(k) {
		present[v.Name] = true
	}
	for n := range vals {
		if !present[n] {
			delete(vals, n)
		}
	}
	return p.Build(vals, k), vals, k
}

// Mutate derives a near-miss from a path.
func Mutate(t *rapid.T, path string) string {
	r := []rune(path)
	switch rapid.IntRange(0, 5).Draw(t, "mutKind") {
	case 0: // insert
		i := rapid.IntRange(1, len(r)).Draw(t, "mutPos")
		c := rapid.SampledFrom([]rune("a/.1-Z")).Draw(t, "mutChar")
		return string(r[:i]) + string(c) + string(r[i:])
	case 1: // delete
		if len(r) <= 1 {
			return path + "a"
		}
		i := rapid.IntRange(1, len(r)-1).Draw(t, "mutPos")
		return string(r[:i]) + string(r[i+1:])
	case 2: // replace
		if len(r) <= 1 {
			return path + "a"
		}
		i := rapid.IntRange(1, len(r)-1).Draw(t, "mutPos")
		c := rapid.SampledFrom([]rune("a/.1-Z")).Draw(t, "mutChar")
		return string(r[:i]) + string(c) + string(r[i+1:])
	case 3: // drop last segment
		if i := strings.LastIndexByte(path, '/'); i > 0 {
			return path[:i]
		}
		return path + "/a"
	case 4: // duplicate last segment
		if i := strings.LastIndexByte(path, '/'); i >= 0 {
			return path + path[i:]
		}
		return path
	default: // extra segment
		return path + "/" + rapid.StringMatching(`[a-c1.]{1,2}`).Draw(t, "extraSeg")
	}
}

func compileFull(re string) (*regexp.Regexp, error) { return regexp.Compile(`^(?:` + re + `)$`) }
