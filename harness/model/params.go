package model

import (
	"fmt"
	"sort"
)

// CheckParams is the oracle of C02 for one selected dynamic route: the key
// set is exactly the variable names; for some number k of present optional
// parts, substituting the reported values reproduces the normalised path,
// every variable of an absent part is "", and every value of a present part
// fully matches its variable's regex.
func CheckParams(p Pattern, norm string, ps map[string]string) error {
	names := p.VarNames()
	if len(ps) != len(names) {
		return fmt.Errorf("parameter names %v, pattern variables %v", keys(ps), names)
	}
	for _, n := range names {
		if _, ok := ps[n]; !ok {
			return fmt.Errorf("parameter names %v, pattern variables %v", keys(ps), names)
		}
	}
	var why []string
	for k := 0; k <= p.OptDepth(); k++ {
		if got := p.Build(ps, k); got != norm {
			why = append(why, fmt.Sprintf("k=%d: substitution gives %q", k, got))
			continue
		}
		present := map[string]bool{}
		ok := true
		for _, v := range p.VarsPresent(k) {
			present[v.Name] = true
			re, _ := compileFull(v.Regex())
			if !re.MatchString(ps[v.Name]) {
				why = append(why, fmt.Sprintf("k=%d: %s=%q does not match %s", k, v.Name, ps[v.Name], v.Regex()))
				ok = false
			}
		}
		for _, n := range names {
			if !present[n] && ps[n] != "" {
				why = append(why, fmt.Sprintf("k=%d: variable %s of an absent part is %q", k, n, ps[n]))
				ok = false
			}
		}
		if ok {
			return nil
		}
	}
	return fmt.Errorf("parameters %v do not reproduce %q through %s: %v", ps, norm, p, why)
}

func keys(m map[string]string) []string {
	var ks []string
	for k := range m {
		ks = append(ks, k)
	}
	sort.Strings(ks)
	return ks
}
