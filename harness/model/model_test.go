package model

import (
	"testing"

	"pgregory.net/rapid"
)

// The generator, the printer and the parser agree, and constructive paths match the reference regex.
func TestModelSelfConsistency(t *testing.T) {
	rapid.Check(t, func(t *rapid.T) {
		strict := rapid.Bool().Draw(t, "strict")
		p := GenPattern(t, GenCfg{Strict: strict, RichLits: true})
		if rapid.Bool().Draw(t, "rel") {
			p = GenRelative(t, GenCfg{Strict: strict, RichLits: true}, p)
		}
		if !p.TokenizerSafe() {
			t.Fatalf("unsafe pattern %s", p)
		}
		q, ok := Parse(p.String())
		if !ok {
			t.Fatalf("Parse rejects generated pattern %q", p.String())
		}
		if q.String() != p.String() || q.RegexString() != p.RegexString() {
			t.Fatalf("round trip %q -> %q ; regex %q vs %q", p.String(), q.String(), p.RegexString(), q.RegexString())
		}
		path, vals, k := GenMatching(t, p)
		if !p.Regex().MatchString(path) {
			t.Fatalf("constructed path %q does not match %s (%s)", path, p.RegexString(), p)
		}
		if p.Build(vals, k) != path {
			t.Fatalf("Build mismatch")
		}
		if p.UniqueDecomposition() {
			sm := p.Regex().FindStringSubmatch(path)
			for i, v := range p.Vars() {
				want, present := vals[v.Name]
				if present && sm[i+1] != want {
					t.Fatalf("unique decomposition claimed for %s but %q gives %s=%q, constructed from %q", p, path, v.Name, sm[i+1], want)
				}
			}
		}
	})
}
