package model

import (
	"fmt"
	"regexp"
	"strings"
	"unicode/utf8"
)

const metaChars = `\^$*+?()|[]{}`

// Parse reads a pattern text of the documented grammar into the AST.  ok is
// false for texts outside the grammar (regex metacharacters in literals,
// optional parts that are not trailing, unbalanced brackets, a '/' inside a
// variable, more than one variable per '/'-free stretch, duplicate names).
func Parse(text string) (p Pattern, ok bool) {
	if text == "" || text[0] != '/' || !utf8.ValidString(text) {
		return p, false // patterns are texts: byte strings that are not UTF-8 are outside the grammar
	}
	i := 1
	n := len(text)
	// parsePart reads literal/var/literal up to one of the stop characters.
	parsePart := func() (Part, bool) {
		var q Part
		for i < n {
			c := text[i]
			switch {
			case c == '/' || c == '[' || c == ']':
				return q, true
			case c == '{':
				if q.V != nil {
					return q, false
				}
				depth, j := 0, i
				for ; j < n; j++ {
					if text[j] == '{' {
						depth++
					} else if text[j] == '}' {
						depth--
						if depth == 0 {
							break
						}
					} else if text[j] == '/' {
						return q, false
					}
				}
				if j >= n {
					return q, false
				}
				inner := text[i+1 : j]
				v := &Var{}
				if k := strings.IndexByte(inner, ':'); k > 0 {
					v.Name, v.Re = strings.TrimSpace(inner[:k]), strings.TrimSpace(inner[k+1:])
					if v.Re == "" {
						return q, false
					}
					if inner != v.Name+":"+v.Re {
						l, r := inner[:k], inner[k+1:]
						v.Fmt = l[:len(l)-len(strings.TrimLeft(l, " \t"))] + "%s" + l[len(strings.TrimRight(l, " \t")):] + ":" +
							r[:len(r)-len(strings.TrimLeft(r, " \t"))] + "%s" + r[len(strings.TrimRight(r, " \t")):]
						if fmt.Sprintf(v.Fmt, v.Name, v.Re) != inner {
							return q, false // white space other than blank and tab: not generated, not modelled
						}
					}
				} else {
					v.Name = inner
				}
				if v.Name == "" || strings.ContainsAny(v.Name, metaChars+":. ") {
					return q, false
				}
				q.V = v
				i = j + 1
			case strings.IndexByte(metaChars, c) >= 0:
				return q, false
			default:
				if q.V == nil {
					q.Pre += text[i : i+1]
				} else {
					q.Post += text[i : i+1]
				}
				i++
			}
		}
		return q, true
	}
	// mandatory segments
	for {
		q, good := parsePart()
		if !good {
			return p, false
		}
		p.Segs = append(p.Segs, q)
		if i < n && text[i] == '/' {
			i++
			if i == n { // trailing slash
				p.TrailSlash = true
				break
			}
			continue
		}
		break
	}
	if len(p.Segs) == 1 && p.Segs[0].V == nil && p.Segs[0].Pre == "" {
		p.Segs = nil // root
		p.TrailSlash = false
	}
	// optional parts
	var parseOpt func() (*Opt, bool)
	parseOpt = func() (*Opt, bool) {
		// text[i] == '['
		i++
		o := &Opt{}
		if i < n && text[i] == '/' {
			o.Sep = "/"
			i++
		}
		for {
			q, good := parsePart()
			if !good {
				return nil, false
			}
			o.Parts = append(o.Parts, q)
			if i < n && text[i] == '/' {
				i++
				continue
			}
			break
		}
		if i < n && text[i] == '[' {
			nx, good := parseOpt()
			if !good {
				return nil, false
			}
			o.Next = nx
		}
		if i >= n || text[i] != ']' {
			return nil, false
		}
		i++
		return o, true
	}
	if i < n && text[i] == '[' {
		if p.TrailSlash {
			return p, false
		}
		o, good := parseOpt()
		if !good {
			return p, false
		}
		p.Opt = o
	}
	if i != n {
		return p, false
	}
	// an optional part that contributes nothing is outside the grammar
	for o := p.Opt; o != nil; o = o.Next {
		if o.Sep == "" && len(o.Parts) == 1 && o.Parts[0].V == nil && o.Parts[0].Pre == "" && o.Next == nil {
			return p, false
		}
	}
	if !p.TokenizerSafe() {
		return p, false
	}
	for _, v := range p.Vars() {
		// a variable regex must compile and must not contain a capturing group (C13: such definitions are invalid)
		if re, err := compileFull(v.Regex()); err != nil || re.NumSubexp() != 0 {
			return p, false
		}
		// ... and it must be a regular expression on its own: "0)|(?" only compiles once it is wrapped in
		// parentheses, it rewrites the surrounding pattern instead of describing the variable
		if _, err := regexp.Compile(v.Regex()); err != nil {
			return p, false
		}
	}
	return p, true
}

// MustParse is Parse for hand-written regression tables.
func MustParse(text string) Pattern {
	if text == "/*" {
		return Pattern{Raw: "/*"}
	}
	p, ok := Parse(text)
	if !ok {
		panic("model.MustParse: not in the grammar: " + text)
	}
	if p.String() != text {
		panic("model.MustParse: round trip of " + text + " gives " + p.String())
	}
	return p
}

// T builds a table from "METHODS pattern" lines, e.g. "GET,POST /a/{id}".
func T(opts Options, lines ...string) *Table {
	tb := &Table{Opts: opts}
	for i, l := range lines {
		f := strings.SplitN(l, " ", 2)
		ms := strings.Split(f[0], ",")
		if f[0] == "ANY" {
			ms = append([]string{}, Methods...)
		}
		tb.Routes = append(tb.Routes, RouteDef{P: MustParse(f[1]), Methods: ms, Idx: i})
	}
	return tb
}
