package model

import (
	"fmt"
	"sort"
	"strings"
	"sync"

	"github.com/gookit/rux"
	"pgregory.net/rapid"
)

// Normalize is the normaliser specification (DESIGN 2.2).
func Normalize(s string, strict bool) string {
	t := strings.TrimSpace(s)
	if !strict {
		t = strings.TrimRight(t, "/")
	}
	return "/" + strings.TrimLeft(t, "/")
}

// Stable reports whether one normalisation pass reaches the fixed point; only
// such strings are used in semantic assertions.
func Stable(s string, strict bool) bool {
	n := Normalize(s, strict)
	return Normalize(n, strict) == n
}

// Options mirrors the router options.
type Options struct {
	Strict      bool
	NotAllowed  bool
	Fallback    bool
	Caching     bool
	CacheCap    int
	Intercept   bool
	InterceptTo string
	EncodedPath bool
	Order       []int // optional: order in which the option functions are applied (a permutation of 0..5)
	Via         int   // how the options reach the router: 0 New(opts...), 1 New() + WithOptions(opts...), 2 New() + one WithOptions call per option
	CacheStyle  int   // how caching with a capacity is spelt: 0 CachingWithNum(n), 1 EnableCaching then MaxNumCaches(n), 2 MaxNumCaches(n) then EnableCaching
}

func (o Options) String() string {
	var ss []string
	if o.Strict {
		ss = append(ss, "strict")
	}
	if o.NotAllowed {
		ss = append(ss, "405")
	}
	if o.Fallback {
		ss = append(ss, "fallback")
	}
	if o.Caching {
		ss = append(ss, fmt.Sprintf("cache=%d", o.CacheCap))
	}
	if o.Intercept {
		ss = append(ss, fmt.Sprintf("intercept=%q", o.InterceptTo))
	}
	if o.EncodedPath {
		ss = append(ss, "encoded")
	}
	if len(o.Order) > 0 {
		ss = append(ss, fmt.Sprintf("order=%v", o.Order))
	}
	if o.Caching && o.CacheStyle > 0 {
		ss = append(ss, []string{"", "EnableCaching+MaxNumCaches", "MaxNumCaches+EnableCaching"}[o.CacheStyle%3])
	}
	if o.Via > 0 {
		ss = append(ss, fmt.Sprintf("via=WithOptions#%d", o.Via))
	}
	return "{" + strings.Join(ss, ",") + "}"
}

// Rux converts to router options; Order (when set) decides in which order they are applied.
func (o Options) Rux() []func(*rux.Router) {
	all := make([]func(*rux.Router), 6)
	if o.Strict {
		all[0] = rux.StrictLastSlash
	}
	if o.NotAllowed {
		all[1] = rux.HandleMethodNotAllowed
	}
	if o.Fallback {
		all[2] = rux.HandleFallbackRoute
	}
	if o.Caching {
		n := uint16(o.CacheCap)
		switch o.CacheStyle {
		case 1:
			all[3] = func(r *rux.Router) { rux.EnableCaching(r); rux.MaxNumCaches(n)(r) }
		case 2:
			all[3] = func(r *rux.Router) { rux.MaxNumCaches(n)(r); rux.EnableCaching(r) }
		default:
			all[3] = rux.CachingWithNum(n)
		}
	}
	if o.Intercept {
		all[4] = rux.InterceptAll(o.InterceptTo)
	}
	if o.EncodedPath {
		all[5] = rux.UseEncodedPath
	}
	order := o.Order
	if len(order) != len(all) {
		order = []int{0, 1, 2, 3, 4, 5}
	}
	var opts []func(*rux.Router)
	for _, i := range order {
		if all[i] != nil {
			opts = append(opts, all[i])
		}
	}
	return opts
}

// NewRouter builds a router with these options, through New or WithOptions (legal until the first route is added).
func (o Options) NewRouter() *rux.Router {
	opts := o.Rux()
	switch o.Via {
	case 1:
		r := rux.New()
		r.WithOptions(opts...)
		return r
	case 2:
		r := rux.New()
		for _, f := range opts {
			r.WithOptions(f)
		}
		return r
	}
	return rux.New(opts...)
}

// GenCacheStyle draws how caching with a capacity is spelt.
func GenCacheStyle(t *rapid.T) int { return rapid.SampledFrom([]int{0, 0, 1, 2}).Draw(t, "cacheStyle") }

// GenVia draws how the options are handed to the router.
func GenVia(t *rapid.T) int { return rapid.SampledFrom([]int{0, 0, 1, 2}).Draw(t, "optionsVia") }

// GenOrder draws an order for the option functions.
func GenOrder(t *rapid.T) []int {
	return rapid.Permutation([]int{0, 1, 2, 3, 4, 5}).Draw(t, "optionOrder")
}

// RouteDef is one registered route of the model table.
type RouteDef struct {
	P       Pattern
	Methods []string
	Idx     int // registration index
}

// Name is the route name used to identify the route on the rux side.
func (d RouteDef) Name() string { return fmt.Sprintf("r%d", d.Idx) }

// Allows reports whether the route allows the method.
func (d RouteDef) Allows(m string) bool {
	for _, x := range d.Methods {
		if x == m {
			return true
		}
	}
	return false
}

func (d RouteDef) String() string {
	return fmt.Sprintf("%s:%s %s", d.Name(), strings.Join(d.Methods, ","), d.P.String())
}

// Table is a route table plus options.
type Table struct {
	Opts   Options
	Routes []RouteDef
}

func (tb *Table) String() string {
	ss := make([]string, len(tb.Routes))
	for i, d := range tb.Routes {
		ss[i] = d.String()
	}
	return tb.Opts.String() + " " + strings.Join(ss, " | ")
}

// Kind of resolution.
type Kind int

const (
	Direct Kind = iota
	HeadGet
	Fallback
	NotAllowed
	NotFound
)

func (k Kind) String() string {
	return [...]string{"direct", "head->get", "fallback", "405", "404"}[k]
}

// Result of resolving one request.
type Result struct {
	Kind    Kind
	Route   int      // index into Routes, -1 if none
	NMatch  int      // number of routes matching under the deciding method
	ByTier  bool     // the winner is not the earliest registered candidate: the tier rule decided
	Allowed []string // sorted; only for NotAllowed
	Norm    string   // the normalised path that was matched
}

// matches reports whether route d matches the normalised path.
func (tb *Table) matches(d RouteDef, norm string) bool {
	if d.P.IsStatic() {
		return Normalize(d.P.String(), tb.Opts.Strict) == norm
	}
	return d.P.Regex().MatchString(norm)
}

// direct finds the winner among routes allowing method and matching norm:
// static beats regular beats others, earliest registration inside a tier.
func (tb *Table) direct(method, norm string) (win, n int, byTier bool) {
	win = -1
	bestTier := 9
	first := -1
	for _, d := range tb.Routes {
		if !d.Allows(method) || !tb.matches(d, norm) {
			continue
		}
		n++
		if first < 0 {
			first = d.Idx
		}
		if t := d.P.Tier(); t < bestTier {
			bestTier, win = t, d.Idx
		}
	}
	return win, n, win != first
}

// Resolve applies the documented resolution order.
func (tb *Table) Resolve(method, path string) Result {
	norm := Normalize(path, tb.Opts.Strict)
	if tb.Opts.Intercept {
		norm = Normalize(tb.Opts.InterceptTo, tb.Opts.Strict)
	}
	res := Result{Route: -1, Norm: norm}
	if w, n, bt := tb.direct(method, norm); w >= 0 {
		res.Kind, res.Route, res.NMatch, res.ByTier = Direct, w, n, bt
		return res
	}
	if method == "HEAD" {
		if w, n, bt := tb.direct("GET", norm); w >= 0 {
			res.Kind, res.Route, res.NMatch, res.ByTier = HeadGet, w, n, bt
			return res
		}
	}
	if tb.Opts.Fallback {
		for _, d := range tb.Routes {
			if d.P.Raw == "/*" && d.Allows(method) {
				res.Kind, res.Route = Fallback, d.Idx
				return res
			}
		}
	}
	if tb.Opts.NotAllowed {
		for _, m := range Methods {
			if m == method {
				continue
			}
			if w, _, _ := tb.direct(m, norm); w >= 0 {
				res.Allowed = append(res.Allowed, m)
			}
		}
		if len(res.Allowed) > 0 {
			sort.Strings(res.Allowed)
			res.Kind = NotAllowed
			return res
		}
	}
	res.Kind = NotFound
	return res
}

// TableCfg sizes the table generator.
type TableCfg struct {
	MaxRoutes int
	Gen       GenCfg
	Fallback  bool // may contain "/*" routes
}

// GenMethods draws the method list of a route.
func GenMethods(t *rapid.T) []string {
	switch rapid.IntRange(0, 9).Draw(t, "mkind") {
	case 0:
		return append([]string{}, Methods...) // like Any
	case 1, 2, 3:
		return []string{"GET"}
	default:
		return rapid.SliceOfNDistinct(rapid.SampledFrom(Methods[:7]), 1, 3, rapid.ID[string]).Draw(t, "methods")
	}
}

// GenRoutes draws the routes of a table; overlapping patterns are the norm.
// Static duplicates (same method and normalised path) are not generated.
func GenRoutes(t *rapid.T, cfg TableCfg, strict bool) []RouteDef {
	if cfg.MaxRoutes == 0 {
		cfg.MaxRoutes = 8
	}
	cfg.Gen.Strict = strict
	n := rapid.IntRange(1, cfg.MaxRoutes).Draw(t, "nroutes")
	var defs []RouteDef
	staticSeen := map[string]bool{}
	for i := 0; i < n; i++ {
		var p Pattern
		switch {
		case cfg.Fallback && rapid.IntRange(0, 7).Draw(t, "star") == 0:
			p = Pattern{Raw: "/*"}
		case len(defs) > 0 && rapid.IntRange(0, 9).Draw(t, "relative") < 5:
			base := defs[rapid.IntRange(0, len(defs)-1).Draw(t, "relOf")].P
			p = GenRelative(t, cfg.Gen, base)
		default:
			p = GenPattern(t, cfg.Gen)
		}
		ms := GenMethods(t)
		if p.IsStatic() {
			key := Normalize(p.String(), strict)
			var keep []string
			for _, m := range ms {
				if !staticSeen[m+key] {
					keep = append(keep, m)
					staticSeen[m+key] = true
				}
			}
			if len(keep) == 0 {
				continue
			}
			ms = keep
		}
		defs = append(defs, RouteDef{P: p, Methods: ms, Idx: len(defs)})
	}
	return defs
}

// LongPrefix puts, in one case out of oneIn, every route of the table below one long first segment (130-600 bytes, as
// inside a group with a long prefix): paths, cache keys and lookups beyond any small fixed-size limit.
func LongPrefix(t *rapid.T, defs []RouteDef, oneIn int) bool {
	if rapid.IntRange(1, oneIn).Draw(t, "longPrefix") != 1 {
		return false
	}
	long := strings.Repeat(rapid.StringMatching(`[a-c]{10}`).Draw(t, "longUnit"), rapid.IntRange(13, 60).Draw(t, "longReps"))
	for i := range defs {
		if d := &defs[i]; d.P.Raw == "" {
			d.P.Segs = append([]Part{{Pre: long}}, d.P.Segs...)
		}
	}
	return true
}

// GenProbePath draws a request path for the table: constructive, near miss or random.
// kind reports which; target is the route the path was built from (-1 for random).
func GenProbePath(t *rapid.T, defs []RouteDef) (path, kind string, target int, vals map[string]string, k int) {
	target = -1
	switch c := rapid.IntRange(0, 19).Draw(t, "probeKind"); {
	case c < 12 && len(defs) > 0:
		target = rapid.IntRange(0, len(defs)-1).Draw(t, "target")
		path, vals, k = GenMatching(t, defs[target].P)
		kind = "constructive"
	case c < 17 && len(defs) > 0:
		target = rapid.IntRange(0, len(defs)-1).Draw(t, "target")
		path, _, _ = GenMatching(t, defs[target].P)
		path = Mutate(t, path)
		vals = nil
		kind = "nearmiss"
	default:
		path = "/" + rapid.StringMatching(`[a-c1./-]{0,6}`).Draw(t, "rnd")
		kind = "random"
	}
	if rapid.IntRange(0, 5).Draw(t, "trailingSlash") == 0 {
		path += "/"
	}
	return
}

// Register adds the table's routes to a router, naming them r<idx>; h builds
// the main handler of each route.
func Register(r *rux.Router, defs []RouteDef, h func(d RouteDef) rux.HandlerFunc) {
	for _, d := range defs {
		RegisterOne(r, d, d.P.String(), h(d))
	}
}

// RegisterOne adds route d under the given path text (the caller may have split off a group prefix) through one of
// the equivalent registration APIs; which one is a pure function of the route (index and pattern length), so that a
// table is always registered the same way.  Method names are also given in lower case and with surrounding blanks
// (documented as equivalent), and a GET-only route may leave the method list to the default.
func RegisterOne(r *rux.Router, d RouteDef, path string, h rux.HandlerFunc) {
	name := d.Name()
	ms := d.Methods
	// an application also makes calls that the router refuses; it recovers and carries on (nothing may stay behind)
	rejected := d.Idx%3 == 1
	if rejected && !d.P.IsStatic() { // (a dynamic route that slipped in first would be asked first)
		RejectedCalls(r, d, path, d.Idx/3+len(path))
	}
	var rt *rux.Route
	switch (d.Idx*7 + len(d.P.String())) % 7 {
	case 1:
		sp := make([]string, len(ms))
		for i, m := range ms {
			sp[i] = []string{strings.ToLower(m), " " + m + " ", strings.ToLower(m[:1]) + m[1:], m + " "}[(i+d.Idx)%4]
		}
		rt = r.AddNamed(name, path, h, sp...)
	case 2:
		// the caller goes on using the slice it passed as methods... (here: overwrites it) before the route is attached
		own := append([]string(nil), ms...)
		rt = rux.NewNamedRoute(name, path, h, own...)
		scribble(own)
		ObserveRoute(rt) // ... and looks at the route it built before it attaches it
		r.AddRoute(rt)
	case 3:
		own := append(make([]string, 0, len(ms)+2), ms...)
		rt = rux.NamedRoute(name, path, h, own...)
		scribble(own)
		ObserveRoute(rt)
		rt.AttachTo(r)
	case 4:
		if len(ms) == 1 && ms[0] == "GET" {
			rt = r.AddNamed(name, path, h) // no methods: GET
		} else {
			rt = r.AddNamed(name, path, h, ms...)
		}
	case 5:
		rt = r.Add(path, h, ms...)
		rt.NamedTo(name, r)
	case 6:
		own := append([]string(nil), ms...)
		rt = rux.NewRoute(path, h, own...)
		ObserveRoute(rt)
		rt.AttachTo(r)
		scribble(own)
		rt.NamedTo(name, r)
	default:
		rt = r.AddNamed(name, path, h, ms...)
	}
	if rejected && d.P.IsStatic() { // (a static route that slipped in afterwards would replace the accepted one)
		RejectedCalls(r, d, path, d.Idx/3+len(path))
	}
	switch d.Idx % 4 {
	case 2:
		Observe(r)
	case 3:
		// more middleware than a route may carry: refused as a whole
		TryCall(func() { rt.Use(make([]rux.HandlerFunc, 70)...) })
		TryCall(func() {
			many := make([]rux.HandlerFunc, 70)
			for i := range many {
				many[i] = RejectedStray
			}
			rt.Use(many...)
		})
	}
}

var RejectedStray rux.HandlerFunc = func(c *rux.Context) {
	c.WriteString("<A-HANDLER-LEFT-BEHIND-BY-A-REJECTED-CALL>")
	c.Next()
}

// TryCall runs f the way an application does that recovers from a refused call; it reports whether f panicked.
func TryCall(f func()) (refused bool) {
	defer func() {
		if recover() != nil {
			refused = true
		}
	}()
	f()
	return false
}

// RejectedCalls makes, in the state the router is in (inside a group or not), one of the calls an application may get
// wrong: each is refused with a panic and the application recovers.  Nothing of a refused call may stay behind.  (All
// of them are unnamed registrations: rux enters the NAME of a route into its name table before it parses the pattern.)
func RejectedCalls(r *rux.Router, d RouteDef, path string, k int) bool {
	m := "GET"
	if len(d.Methods) > 0 {
		m = d.Methods[0]
	}
	v := "id"
	if vs := d.P.Vars(); len(vs) > 0 {
		v = vs[0].Name
	}
	switch k % 5 {
	case 0:
		// the route's own path and first method, then a method rux does not know
		return TryCall(func() { r.Add(path, RejectedStray, m, "BREW") })
	case 1:
		return TryCall(func() { r.Add("/zz-rejected[/{"+v+"}]/list", RejectedStray) })
	case 2:
		return TryCall(func() { r.Add("/zz-rejected/{"+v+":(?:a|b)(c)}", RejectedStray, "POST") })
	case 3:
		s := "not a struct"
		return TryCall(func() { r.Resource("/zz-rejected", &s, RejectedStray) })
	default:
		return TryCall(func() { r.Add(path, nil, m) })
	}
}

// ObserveRoute calls the read-only API of a route, attached or not: none of it changes what the route is or does.
func ObserveRoute(rt *rux.Route) {
	_, _, _ = rt.Name(), rt.Path(), rt.Methods()
	_, _ = rt.MethodString(","), rt.String()
	_ = rt.Info()
	_, _, _ = rt.Handlers(), rt.HandlerName(), rt.Handler()
	_ = rt.ToURL()
}

// Observe calls the read-only API of a router: none of it changes how requests are answered or what later
// registrations do.
func Observe(r *rux.Router) {
	_ = r.String()
	_ = r.Routes()
	r.IterateRoutes(ObserveRoute)
	for _, rt := range r.NamedRoutes() {
		ObserveRoute(rt)
	}
	_, _, _ = r.Handlers(), r.GetRoute("r0"), r.Err()
}

// Lookup is one (method, path) pair with the route index the sequential lookup gave.
type Lookup struct {
	Method, Path string
	Route        int
}

// ConcurrentLookups repeats lookups from several goroutines at once (Router.Match, which is what ServeHTTP uses) and
// returns a description of the first answer that differs from the sequential one, or "".  Lookups share nothing the
// application owns, so a different answer means that the router's lookups disturb each other.
func ConcurrentLookups(r *rux.Router, ls []Lookup, goroutines, rounds int) string {
	if len(ls) == 0 {
		return ""
	}
	var wg sync.WaitGroup
	bad := make(chan string, goroutines)
	start := make(chan struct{})
	for g := 0; g < goroutines; g++ {
		wg.Add(1)
		go func(g int) {
			defer wg.Done()
			<-start
			for k := 0; k < rounds; k++ {
				l := ls[(g+k)%len(ls)]
				rt, _, _ := r.Match(l.Method, l.Path)
				if got := RouteIndex(rt); got != l.Route {
					select {
					case bad <- fmt.Sprintf("Match(%s,%q) answered route %d while %d other goroutines were looking up paths, alone it answers route %d", l.Method, l.Path, got, goroutines-1, l.Route):
					default:
					}
					return
				}
			}
		}(g)
	}
	close(start)
	wg.Wait()
	select {
	case msg := <-bad:
		return msg
	default:
		return ""
	}
}

// scribble overwrites a slice the caller owns (elements and spare capacity) with a method name no route has.
func scribble(ms []string) {
	ms = ms[:cap(ms)]
	for i := range ms {
		ms[i] = "BREW"
	}
}

// RouteIndex parses "r<idx>" names; -1 for nil.
func RouteIndex(rt *rux.Route) int {
	if rt == nil {
		return -1
	}
	var i int
	if _, err := fmt.Sscanf(rt.Name(), "r%d", &i); err != nil {
		return -2
	}
	return i
}

// RejectedOptions tries, on a router that already has routes, to switch on every option that is off: WithOptions
// refuses that (options come before routes) and the application recovers.  The router goes on as configured.
func RejectedOptions(r *rux.Router, o Options) {
	if !o.Strict {
		TryCall(func() { r.WithOptions(rux.StrictLastSlash) })
	}
	if !o.NotAllowed {
		TryCall(func() { r.WithOptions(rux.HandleMethodNotAllowed) })
	}
	if !o.Fallback {
		TryCall(func() { r.WithOptions(rux.HandleFallbackRoute) })
	}
	if !o.EncodedPath {
		TryCall(func() { r.WithOptions(rux.UseEncodedPath) })
	}
	if !o.Intercept {
		TryCall(func() { r.WithOptions(rux.InterceptAll("/zz-rejected-intercept")) })
	}
	if !o.Caching {
		TryCall(func() { r.WithOptions(rux.EnableCaching) })
	}
}
