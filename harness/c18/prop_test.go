// C18 — binding picks its source from the request and round-trips data.
package c18

import (
	"bytes"
	"encoding/json"
	"encoding/xml"
	"errors"
	"fmt"
	"io"
	"mime/multipart"
	"net/http"
	"net/http/httptest"
	"net/url"
	"reflect"
	"strconv"
	"strings"
	"sync"
	"testing"
	"testing/iotest"

	"github.com/gookit/rux"
	"github.com/gookit/rux/pkg/binding"
	"github.com/gookit/validate"
	"pgregory.net/rapid"

	"verifharness/ev"
)

func TestMain(m *testing.M) { ev.Main(m) }

// Payload is the representative bindable struct.  The query tags differ from the form tags on purpose: a binder that
// decodes one source with the tag names of another (or lets the query string leak into a body bind) cannot succeed.
type Payload struct {
	XMLName xml.Name `xml:"payload" json:"-" form:"-" query:"-"`
	Age     int      `query:"q_age" form:"age" json:"age" xml:"age"`
	Name    string   `query:"q_name" form:"name" json:"name" xml:"name" validate:"required"`
	Active  bool     `query:"q_active" form:"active" json:"active" xml:"active"`
	Score   int64    `query:"q_score" form:"score" json:"score" xml:"score"`
	Tags    []string `query:"q_tags" form:"tags" json:"tags" xml:"tags"`
}

func (p Payload) norm() Payload {
	p.XMLName = xml.Name{}
	if len(p.Tags) == 0 {
		p.Tags = nil
	}
	return p
}

// XML 1.0 cannot carry every code point (a limit of the codec, not of rux)
func xmlSafe(s string) string {
	return strings.Map(func(r rune) rune {
		if r == 0x9 || r == 0xA || r == 0xD || (r >= 0x20 && r <= 0xD7FF) || (r >= 0xE000 && r < 0xFFFD) || (r >= 0x10000 && r <= 0x10FFFF) {
			return r
		}
		return 'x'
	}, s)
}

var strGen = rapid.OneOf(
	rapid.StringMatching(`[a-c]{1,4}`),
	rapid.StringMatching(`[a-c&=;+%\[\]. ]{1,6}`),
	rapid.SampledFrom([]string{"", " ", "  ", "é中", "a&b=c", "x;y", "1+1", "100%", "a[0]", "a.b", "<x>", "\"q\"", "tab\there", "nl\nhere", "%zz"}),
	rapid.String(),
)

func genPayload(t *rapid.T, label string) Payload {
	return Payload{
		Age:    rapid.IntRange(-100000, 100000).Draw(t, label+"age"),
		Name:   xmlSafe(strGen.Draw(t, label+"name")),
		Active: rapid.Bool().Draw(t, label+"active"),
		Score:  rapid.Int64().Draw(t, label+"score"),
		Tags:   rapid.SliceOfN(rapid.Map(strGen, xmlSafe), 0, 3).Draw(t, label+"tags"),
	}
}

func values(p Payload) url.Values { return valuesWith(p, "") }

// queryValues encodes p under the names of the `query` tags.
func queryValues(p Payload) url.Values { return valuesWith(p, "q_") }

func valuesWith(p Payload, prefix string) url.Values {
	v := url.Values{}
	v.Set(prefix+"age", strconv.Itoa(p.Age))
	v.Set(prefix+"name", p.Name)
	v.Set(prefix+"active", strconv.FormatBool(p.Active))
	v.Set(prefix+"score", strconv.FormatInt(p.Score, 10))
	for _, tg := range p.Tags {
		v.Add(prefix+"tags", tg)
	}
	return v
}

// encode returns the body for a format and the Content-Type that goes with it.
func encode(p Payload, format string) ([]byte, string) {
	switch format {
	case "form":
		return []byte(values(p).Encode()), "application/x-www-form-urlencoded"
	case "multipart":
		var buf bytes.Buffer
		mw := multipart.NewWriter(&buf)
		_ = mw.SetBoundary("verifharnessboundary0123456789") // the default boundary is random
		for _, k := range []string{"age", "name", "active", "score", "tags"} {
			for _, v := range values(p)[k] {
				_ = mw.WriteField(k, v)
			}
		}
		_ = mw.Close()
		return buf.Bytes(), mw.FormDataContentType()
	case "json":
		b, _ := json.Marshal(p)
		return b, "application/json"
	default:
		b, err := xml.Marshal(p)
		if err != nil {
			panic(err)
		}
		return b, "application/xml"
	}
}

var formats = []string{"form", "multipart", "json", "xml"}

// media types with and without parameters; optional white space around ';' is legal (RFC 7231, OWS)
func ctVariants(format, base string) []string {
	switch format {
	case "form":
		return []string{base, base + "; charset=utf-8", base + ";charset=UTF-8", base + " ; charset=utf-8", base + "\t;charset=utf-8"}
	case "multipart":
		return []string{base, strings.Replace(base, "; boundary", " ; boundary", 1), strings.Replace(base, "; boundary", ";boundary", 1)}
	case "json":
		return []string{base, "application/json; charset=utf-8", "text/json", "application/json;q=1", "application/json ; charset=utf-8", "text/json\t; charset=utf-8"}
	default:
		return []string{base, "text/xml", "application/xml; charset=utf-8", "text/xml;charset=utf-8", "application/xml ; charset=utf-8", "text/xml\t; charset=utf-8"}
	}
}

func independentValidate(p *Payload) error {
	v := validate.New(p)
	if v.Validate() {
		return nil
	}
	return v.Errors.OneError()
}

// bindVia runs the bind through one of the entry points; it returns the error and a panic value.
// preParse: what a handler did with the request's form before binding (0 nothing, 1 c.Post(...), 2 Req.ParseForm()).
var preParse int

func bindVia(entry string, req *http.Request, got *Payload) (err error, pv any) {
	defer func() {
		if v := recover(); v != nil {
			pv = v
		}
	}()
	switch entry {
	case "binding.Auto":
		return binding.Auto(req, got), nil
	case "binding.Bind":
		return binding.Bind(req, got), nil
	default:
		r := rux.New()
		h := func(c *rux.Context) {
			// the handler looked at the query before (a logger, a pager) and keeps / edits what it was handed:
			// the values a getter returns belong to the caller
			qv := c.QueryValues()
			for k, vs := range qv {
				for i := range vs {
					vs[i] = "edited-by-the-handler"
				}
				qv[k] = append(vs, "added-by-the-handler")
			}
			qv["q_name"] = []string{"replaced-by-the-handler"}
			if vs, ok := c.QueryParams("q_tags"); ok {
				for i := range vs {
					vs[i] = "edited-by-the-handler"
				}
			}
			// ... and it may have looked at the form fields before it binds (a CSRF check, a logger): for a JSON / XML
			// body that leaves an empty, non-nil PostForm behind - the body is still the source
			// ... and at the request's type, as a logger or a content negotiation step does
			_, _, _ = c.ContentType(), c.AcceptedTypes(), c.IsAjax()
			_, _ = c.Header("Content-Type"), c.Length()
			switch preParse {
			case 1:
				_ = c.Post("csrf_token")
			case 2:
				_ = c.Req.ParseForm()
			}
			switch entry {
			case "Context.Bind":
				err = c.Bind(got)
			case "Context.AutoBind":
				err = c.AutoBind(got)
			}
		}
		r.Add("/x", h, rux.AnyMethods()...)
		r.ServeHTTP(httptest.NewRecorder(), req)
		return err, nil
	}
}

func prop(t *rapid.T) {
	ev.Case()
	binding.ResetValidator()
	defer binding.ResetValidator()
	validator := rapid.Bool().Draw(t, "validatorEnabled")
	if !validator {
		binding.DisableValidator()
	}
	method := rapid.SampledFrom([]string{"GET", "POST", "PUT", "PATCH", "DELETE", "OPTIONS", "HEAD", "CONNECT", "TRACE"}).Draw(t, "method")
	pQuery, pBody := genPayload(t, "q."), genPayload(t, "b.")
	bodyFormat := rapid.SampledFrom(formats).Draw(t, "bodyFormat")
	body, baseCT := encode(pBody, bodyFormat)
	ctKind := rapid.SampledFrom([]string{"matching", "matching", "matching", "other-format", "unknown", "empty"}).Draw(t, "contentTypeKind")
	ctFormat := bodyFormat
	var ct string
	switch ctKind {
	case "matching":
		ct = rapid.SampledFrom(ctVariants(bodyFormat, baseCT)).Draw(t, "ct")
	case "other-format":
		ctFormat = rapid.SampledFrom(formats).Draw(t, "ctFormat")
		_, otherBase := encode(pBody, ctFormat)
		ct = rapid.SampledFrom(ctVariants(ctFormat, otherBase)).Draw(t, "ct")
	case "unknown":
		// other media types - among them registered types whose name merely starts like a supported one
		ct = rapid.SampledFrom([]string{"text/plain", "application/octet-stream", "application/yaml", "text/html; charset=utf-8", "json", "xml",
			"application/json-seq", "application/jsonlines", "application/json5", "application/xml-dtd", "text/xml-external-parsed-entity",
			"application/x-www-form-urlencoded-x", "multipart/form-data-set; boundary=x", "application/jsonp; charset=utf-8", "text/plain; profile=a/json", "text/plain; alt=text/xml"}).Draw(t, "ct")
	}
	garbage := rapid.IntRange(0, 5).Draw(t, "arbitraryBody") == 0
	if garbage {
		body = rapid.SliceOfN(rapid.Byte(), 0, 40).Draw(t, "bytes")
	}
	// malformed input of the announced format: an invalid percent escape in a form body, a JSON or XML document
	// that breaks off before its end
	malformed := false
	if !garbage && bodyFormat != "multipart" && rapid.IntRange(0, 7).Draw(t, "malformedBody") == 0 {
		malformed = true
		switch bodyFormat {
		case "form":
			body = append(append([]byte{}, body...), rapid.SampledFrom([]string{"&tags=%zz", "&name=a%", "&%z=1", "&age=1%zz"}).Draw(t, "badEscape")...)
		case "xml":
			// not well-formed: a bare '&', an undefined entity, an unquoted attribute value, a missing end tag - or cut off
			switch rapid.IntRange(0, 4).Draw(t, "xmlDefect") {
			case 0:
				body = bytes.Replace(body, []byte("</payload>"), []byte(" & </payload>"), 1)
			case 1:
				body = bytes.Replace(body, []byte("</payload>"), []byte("&nosuchentity;</payload>"), 1)
			case 2:
				body = bytes.Replace(body, []byte("<payload>"), []byte("<payload kind=plain>"), 1)
			case 3:
				body = bytes.Replace(body, []byte("</age>"), []byte(""), 1)
			default:
				body = body[:len(body)-rapid.IntRange(1, 3).Draw(t, "cutOff")]
			}
		default:
			body = body[:len(body)-rapid.IntRange(1, 3).Draw(t, "cutOff")]
		}
	}
	// how the body arrives: at once, or in pieces (a real connection delivers large bodies in several reads)
	var bodyReader io.Reader = bytes.NewReader(body)
	readerKind := rapid.SampledFrom([]string{"whole", "whole", "one-byte", "half", "data-with-EOF"}).Draw(t, "bodyReader")
	switch readerKind {
	case "one-byte":
		bodyReader = iotest.OneByteReader(bodyReader)
	case "half":
		bodyReader = iotest.HalfReader(bodyReader)
	case "data-with-EOF":
		bodyReader = iotest.DataErrReader(bodyReader)
	}
	ev.Class("body-reader:" + readerKind)
	target := "/x?" + queryValues(pQuery).Encode()
	// a request without any query string (and one whose form body is empty) binds the zero value - through the same
	// steps as any other: with a validator on, the required field is missing
	if rapid.IntRange(0, 7).Draw(t, "noQueryAtAll") == 0 {
		pQuery, target = Payload{}, "/x"
		ev.Class("request-without-a-query-string")
		if bodyFormat == "form" && !garbage && !malformed {
			pBody, body = Payload{}, nil
			bodyReader = bytes.NewReader(nil)
			ev.Class("empty-form-body")
		}
	}
	req := httptest.NewRequest(method, target, bodyReader)
	req.ContentLength = int64(len(body))
	if ct != "" {
		req.Header.Set("Content-Type", ct)
	}
	entry := rapid.SampledFrom([]string{"binding.Auto", "binding.Bind", "Context.Bind", "Context.AutoBind"}).Draw(t, "entry")
	preParse = 0
	if bodyFormat == "json" || bodyFormat == "xml" || !(method == "POST" || method == "PUT" || method == "PATCH") {
		// (for form and multipart bodies reading a field first consumes the body through net/http - the usual order is
		// bind first; not generated)
		preParse = rapid.SampledFrom([]int{0, 0, 1, 2}).Draw(t, "preParse")
	}
	defer func() { preParse = 0 }()
	// binds are independent of each other: an earlier request whose body broke off in the middle (client gone,
	// size limit) must leave nothing behind for this one
	if rapid.IntRange(0, 3).Draw(t, "earlierBrokenBind") == 0 {
		pf := rapid.SampledFrom(formats).Draw(t, "brokenFormat")
		pb, pct := encode(genPayload(t, "x."), pf)
		cut := rapid.IntRange(0, len(pb)).Draw(t, "brokenAfter")
		breq := httptest.NewRequest("POST", "/x", io.MultiReader(bytes.NewReader(pb[:cut]), iotest.ErrReader(errors.New("connection reset"))))
		breq.Header.Set("Content-Type", pct)
		var junk Payload
		if _, pv := bindVia(entry, breq, &junk); pv != nil {
			t.Fatalf("a bind whose body breaks off after %d bytes (%s) panicked: %v", cut, pf, pv)
		}
		ev.Class("earlier-bind-with-broken-body")
	}
	var got Payload
	err, pv := bindVia(entry, req, &got)
	ev.Eval()
	ctx := fmt.Sprintf("%s %s validator=%v Content-Type=%q (%s) body format=%s garbage=%v malformed=%v\n query value %+v\n body value  %+v\n body %q", entry, method, validator, ct, ctKind, bodyFormat, garbage, malformed, pQuery.norm(), pBody.norm(), body)
	if pv != nil {
		t.Fatalf("panic %v: %s", pv, ctx)
	}
	hasBody := method == "POST" || method == "PUT" || method == "PATCH"
	ev.Class("method-with-body=" + fmt.Sprint(hasBody))
	// which value must have been bound?
	var want *Payload
	switch {
	case !hasBody:
		want = &pQuery
		ev.Class("source:query")
	case ctKind == "unknown" || ctKind == "empty":
		if err == nil {
			t.Fatalf("Content-Type %q is none of the supported types but binding succeeded with %+v: %s", ct, got.norm(), ctx)
		}
		ev.Class("source:unsupported-content-type->error")
	case garbage:
		ev.Class("source:arbitrary-bytes")
	case malformed && ctFormat == bodyFormat:
		if err == nil {
			t.Fatalf("malformed %s body but binding succeeded with %+v: %s", bodyFormat, got.norm(), ctx)
		}
		ev.Class("source:malformed-body-of-the-announced-format->error")
	case ctFormat == bodyFormat:
		want = &pBody
		ev.Class("source:" + ctFormat)
	default:
		ev.Class("source:body-of-another-format(no-panic-only)")
	}
	if want != nil {
		if validator && want.Name == "" {
			if err == nil {
				t.Fatalf("required field empty but binding succeeded: %s", ctx)
			}
			ev.Class("validation-failing-value")
		} else if independentValidate(want) != nil && validator {
			if err == nil {
				t.Fatalf("the value does not pass validation but binding succeeded: %s", ctx)
			}
		} else {
			if err != nil {
				t.Fatalf("unexpected error %v: %s", err, ctx)
			}
			if !reflect.DeepEqual(got.norm(), want.norm()) {
				t.Fatalf("bound %+v, want %+v: %s", got.norm(), want.norm(), ctx)
			}
		}
	}
	if err == nil && validator {
		if verr := independentValidate(&got); verr != nil || got.Name == "" {
			t.Fatalf("binding succeeded with a validator enabled, but the bound value %+v does not pass validation (%v): %s", got.norm(), verr, ctx)
		}
	}
	different := !reflect.DeepEqual(pQuery.norm(), pBody.norm())
	special := strings.ContainsAny(pQuery.Name+pBody.Name+strings.Join(pBody.Tags, ""), "&=;+%[]. ") || !isASCII(pQuery.Name+pBody.Name)
	if want != nil && (different || special) {
		ev.NonTrivial(ctx, func() string { return ctx })
	}
}

func isASCII(s string) bool {
	for _, r := range s {
		if r > 127 {
			return false
		}
	}
	return true
}

func TestProp(t *testing.T) { rapid.Check(t, prop) }

// propExplicit: the explicit binders (BindJSON/BindXML/BindForm/ShouldBind) round-trip as well.
func propExplicit(t *rapid.T) {
	ev.Case()
	binding.ResetValidator()
	p := genPayload(t, "")
	format := rapid.SampledFrom([]string{"form", "json", "xml", "query", "header", "json-bytes", "xml-bytes", "form-values", "query-values"}).Draw(t, "format")
	var req *http.Request
	var bind func(c *rux.Context, got *Payload) error
	var direct func(got *Payload) error // binder entry points that take the data itself instead of a request
	switch format {
	case "json-bytes":
		b, _ := encode(p, "json")
		direct = func(got *Payload) error { return binding.JSON.BindBytes(b, got) }
	case "xml-bytes":
		b, _ := encode(p, "xml")
		direct = func(got *Payload) error { return binding.XML.BindBytes(b, got) }
	case "form-values":
		direct = func(got *Payload) error { return binding.Form.BindValues(values(p), got) }
	case "query-values":
		direct = func(got *Payload) error { return binding.Query.BindValues(queryValues(p), got) }
	case "form":
		b, ct := encode(p, "form")
		req = httptest.NewRequest("POST", "/x", bytes.NewReader(b))
		req.Header.Set("Content-Type", ct)
		bind = func(c *rux.Context, got *Payload) error { return c.BindForm(got) }
	case "json":
		b, _ := encode(p, "json")
		req = httptest.NewRequest("POST", "/x", bytes.NewReader(b))
		bind = func(c *rux.Context, got *Payload) error { return c.BindJSON(got) }
	case "xml":
		b, _ := encode(p, "xml")
		req = httptest.NewRequest("POST", "/x", bytes.NewReader(b))
		bind = func(c *rux.Context, got *Payload) error { return c.BindXML(got) }
	case "query":
		req = httptest.NewRequest("GET", "/x?"+queryValues(p).Encode(), nil)
		bind = func(c *rux.Context, got *Payload) error { return c.ShouldBind(got, binding.Query) }
	default:
		req = httptest.NewRequest("GET", "/x", nil)
		bind = func(c *rux.Context, got *Payload) error { return c.ShouldBind(got, binding.GetBinder("json")) }
		b, _ := encode(p, "json")
		req.Body = io.NopCloser(bytes.NewReader(b))
	}
	var got Payload
	var err error
	if direct != nil {
		err = direct(&got)
	} else {
		r := rux.New()
		r.Add("/x", func(c *rux.Context) { err = bind(c, &got) }, "GET", "POST")
		r.ServeHTTP(httptest.NewRecorder(), req)
	}
	ev.Eval()
	if p.Name == "" {
		if err == nil {
			t.Fatalf("%s: required field empty but binding succeeded", format)
		}
		return
	}
	if independentValidate(&p) != nil {
		return
	}
	if err != nil {
		t.Fatalf("%s: unexpected error %v for %+v", format, err, p.norm())
	}
	if !reflect.DeepEqual(got.norm(), p.norm()) {
		t.Fatalf("%s: bound %+v, want %+v", format, got.norm(), p.norm())
	}
	ev.NonTrivial(format+fmt.Sprint(p), func() string { return fmt.Sprintf("%s %+v", format, p.norm()) })
}

func TestPropExplicit(t *testing.T) { rapid.Check(t, propExplicit) }

// Inner / Outer: a bindable struct whose only validation rule sits in a nested struct.
type Inner struct {
	Code string `json:"code" xml:"code" form:"code" query:"code" validate:"required"`
}

type Outer struct {
	XMLName xml.Name `xml:"outer" json:"-" form:"-" query:"-"`
	ID      int      `json:"id" xml:"id" form:"id" query:"id"`
	Inner   Inner    `json:"inner" xml:"inner" form:"inner" query:"inner"`
}

// propNested: "a successful bind implies that the struct passed validation" also when the rules belong to a nested
// struct.  The independent validate run is the oracle, as in TestProp.
func propNested(t *rapid.T) {
	ev.Case()
	binding.ResetValidator()
	validator := rapid.IntRange(0, 3).Draw(t, "validatorEnabled") > 0
	if !validator {
		binding.DisableValidator()
		defer binding.ResetValidator()
	}
	v := Outer{ID: rapid.IntRange(0, 99).Draw(t, "id"), Inner: Inner{Code: rapid.SampledFrom([]string{"", "", "a", "xy"}).Draw(t, "code")}}
	format := rapid.SampledFrom([]string{"json", "xml", "form", "query", "json-bytes"}).Draw(t, "format")
	var got Outer
	var err error
	vals := url.Values{"id": {strconv.Itoa(v.ID)}, "inner.code": {v.Inner.Code}}
	switch format {
	case "json":
		b, _ := json.Marshal(v)
		req := httptest.NewRequest("POST", "/x", bytes.NewReader(b))
		req.Header.Set("Content-Type", "application/json")
		err = binding.Auto(req, &got)
	case "json-bytes":
		b, _ := json.Marshal(v)
		err = binding.JSON.BindBytes(b, &got)
	case "xml":
		b, _ := xml.Marshal(v)
		req := httptest.NewRequest("PUT", "/x", bytes.NewReader(b))
		req.Header.Set("Content-Type", "text/xml")
		err = binding.Auto(req, &got)
	case "form":
		req := httptest.NewRequest("PATCH", "/x", strings.NewReader(vals.Encode()))
		req.Header.Set("Content-Type", "application/x-www-form-urlencoded")
		err = binding.Auto(req, &got)
	default:
		err = binding.Auto(httptest.NewRequest("GET", "/x?"+vals.Encode(), nil), &got)
	}
	ev.Eval()
	ctx := fmt.Sprintf("%s validator=%v value %+v: err=%v bound %+v", format, validator, v, err, got)
	if err == nil && (got.ID != v.ID || got.Inner.Code != v.Inner.Code) {
		t.Fatalf("round trip: %s", ctx)
	}
	valid := validate.New(&v).Validate()
	if validator && err == nil && !valid {
		t.Fatalf("bind succeeded although the value does not pass validation (rule in a nested struct): %s", ctx)
	}
	if err != nil && (valid || !validator) {
		t.Fatalf("unexpected error: %s", ctx)
	}
	if !valid {
		ev.Class("nested-rule-violated")
		ev.NonTrivial(ctx, func() string { return ctx })
	}
}

func TestPropNested(t *testing.T) { rapid.Check(t, propNested) }

// Plain has no validate tags at all: its rule lives in the application's own validator.
type Plain struct {
	XMLName xml.Name `xml:"plain" json:"-" form:"-" query:"-"`
	N       int      `json:"n" xml:"n" form:"n" query:"n"`
	IDs     []int    `json:"ids" xml:"ids" form:"ids" query:"ids"`
}

type evenOnly struct{ calls int }

func (v *evenOnly) Validate(obj any) error {
	v.calls++
	if p, ok := obj.(*Plain); ok && p.N%2 != 0 {
		return errors.New("n must be even")
	}
	return nil
}

// propCustomValidator: "whenever a validator is enabled" includes a validator the application installed itself
// (binding.Validator), for structs without any tags; and long slices (more than 128 values) round-trip like
// short ones.
func propCustomValidator(t *rapid.T) {
	ev.Case()
	v := &evenOnly{}
	binding.Validator = v
	defer binding.ResetValidator()
	nids := rapid.SampledFrom([]int{0, 1, 3, 129, 300, 900}).Draw(t, "nids") // (net/http refuses multipart forms of more than 1000 parts)
	p := Plain{N: rapid.IntRange(0, 9).Draw(t, "n")}
	for i := 0; i < nids; i++ {
		p.IDs = append(p.IDs, i*7%1000)
	}
	format := rapid.SampledFrom([]string{"json", "xml", "form", "query", "multipart"}).Draw(t, "format")
	vals := url.Values{"n": {strconv.Itoa(p.N)}}
	for _, id := range p.IDs {
		vals.Add("ids", strconv.Itoa(id))
	}
	var req *http.Request
	switch format {
	case "json":
		b, _ := json.Marshal(p)
		req = httptest.NewRequest("POST", "/x", bytes.NewReader(b))
		req.Header.Set("Content-Type", "application/json")
	case "xml":
		b, _ := xml.Marshal(p)
		req = httptest.NewRequest("POST", "/x", bytes.NewReader(b))
		req.Header.Set("Content-Type", "application/xml")
	case "form":
		req = httptest.NewRequest("PUT", "/x", strings.NewReader(vals.Encode()))
		req.Header.Set("Content-Type", "application/x-www-form-urlencoded")
	case "multipart":
		var buf bytes.Buffer
		mw := multipart.NewWriter(&buf)
		for k, vs := range vals {
			for _, s := range vs {
				_ = mw.WriteField(k, s)
			}
		}
		_ = mw.Close()
		req = httptest.NewRequest("POST", "/x", &buf)
		req.Header.Set("Content-Type", mw.FormDataContentType())
	default:
		req = httptest.NewRequest("GET", "/x?"+vals.Encode(), nil)
	}
	var got Plain
	err := binding.Auto(req, &got)
	ev.Eval()
	ctx := fmt.Sprintf("%s n=%d len(ids)=%d: err=%v bound n=%d len(ids)=%d validator calls=%d", format, p.N, len(p.IDs), err, got.N, len(got.IDs), v.calls)
	if p.N%2 != 0 {
		if err == nil {
			t.Fatalf("the installed validator rejects the value but binding succeeded: %s", ctx)
		}
		ev.Class("custom-validator-rejects")
		return
	}
	if err != nil {
		t.Fatalf("unexpected error: %s", ctx)
	}
	if got.N != p.N || len(got.IDs) != len(p.IDs) {
		t.Fatalf("round trip: %s", ctx)
	}
	for i := range p.IDs {
		if got.IDs[i] != p.IDs[i] {
			t.Fatalf("round trip: ids[%d]=%d, want %d: %s", i, got.IDs[i], p.IDs[i], ctx)
		}
	}
	if nids > 128 {
		ev.Class("slice-of-more-than-128-values")
		ev.NonTrivial(ctx, func() string { return ctx })
	}
}

func TestPropCustomValidator(t *testing.T) { rapid.Check(t, propCustomValidator) }

// propConcurrentBinds: binds running at the same time (a server binds in every request goroutine).  Each bind gets its
// own request's value, in every format: nothing is shared between binds.
func propConcurrentBinds(t *rapid.T) {
	ev.Case()
	binding.ResetValidator()
	defer binding.ResetValidator()
	g := rapid.IntRange(2, 4).Draw(t, "goroutines")
	per := rapid.IntRange(2, 6).Draw(t, "bindsEach")
	format := rapid.SampledFrom(formats).Draw(t, "format")
	type job struct {
		p    Payload
		body []byte
		ct   string
	}
	jobs := make([][]job, g)
	for i := range jobs {
		for k := 0; k < per; k++ {
			p := genPayload(t, "p.")
			if p.Name == "" {
				p.Name = "n"
			}
			// bodies of very different lengths: a buffer that is shared shows
			p.Tags = append(p.Tags, strings.Repeat("x", (i*per+k)%7*40))
			b, ct := encode(p, format)
			jobs[i] = append(jobs[i], job{p, b, ct})
		}
	}
	errs := make([]string, g)
	var wg sync.WaitGroup
	for i := range jobs {
		wg.Add(1)
		go func(i int) {
			defer wg.Done()
			for _, j := range jobs[i] {
				req := httptest.NewRequest("POST", "/x", bytes.NewReader(j.body))
				req.Header.Set("Content-Type", j.ct)
				var got Payload
				if err := binding.Auto(req, &got); err != nil {
					errs[i] = fmt.Sprintf("bind of a well-formed %s body failed: %v (body %q)", format, err, j.body)
					return
				}
				if !reflect.DeepEqual(got.norm(), j.p.norm()) {
					errs[i] = fmt.Sprintf("bound %+v, the request carried %+v (%s)", got.norm(), j.p.norm(), format)
					return
				}
			}
		}(i)
	}
	wg.Wait()
	ev.Eval()
	for _, e := range errs {
		if e != "" {
			t.Fatalf("%d goroutines binding at the same time: %s", g, e)
		}
	}
	ev.Class("concurrent-binds:" + format)
	ev.NonTrivial(fmt.Sprint(g, per, format, jobs[0][0].p), func() string { return fmt.Sprintf("%d goroutines x %d %s binds", g, per, format) })
}

func TestPropConcurrentBinds(t *testing.T) { rapid.Check(t, propConcurrentBinds) }
