//go:build verif

package c18

import (
	"net/http/httptest"
	"strings"
	"testing"
)

// D21: binding.Auto looked for "/json", "/xml", ... anywhere in the Content-Type header, so other media types whose
// name starts like a supported one (application/json-seq, application/xml-dtd) and types that carry such text in a
// parameter were decoded instead of rejected.
func TestRegressOtherMediaTypes(t *testing.T) {
	body := `{"age":3,"name":"a","active":false,"score":0,"tags":[]}`
	for _, ct := range []string{"application/json-seq", "application/jsonlines", "application/xml-dtd",
		"application/x-www-form-urlencoded-x", "multipart/form-data-set; boundary=x", "text/plain; profile=a/json", "text/plain; alt=text/xml"} {
		t.Run(strings.NewReplacer("/", "_", ";", "_", " ", "").Replace(ct), func(t *testing.T) {
			for _, entry := range []string{"binding.Auto", "Context.Bind"} {
				req := httptest.NewRequest("POST", "/x", strings.NewReader(body))
				req.Header.Set("Content-Type", ct)
				var got Payload
				err, pv := bindVia(entry, req, &got)
				if pv != nil {
					t.Fatalf("%s: panic %v", entry, pv)
				}
				if err == nil {
					t.Fatalf("%s: Content-Type %q is none of the supported types but binding succeeded with %+v", entry, ct, got)
				}
			}
		})
	}
	// the supported types still bind, with and without parameters
	for _, ct := range []string{"application/json", "application/json; charset=utf-8", "text/json", " application/json ;charset=utf-8"} {
		req := httptest.NewRequest("POST", "/x", strings.NewReader(body))
		req.Header.Set("Content-Type", ct)
		var got Payload
		if err, pv := bindVia("binding.Auto", req, &got); err != nil || pv != nil || got.Age != 3 {
			t.Fatalf("Content-Type %q: err=%v panic=%v got=%+v", ct, err, pv, got)
		}
	}
}
