package c18

import (
	"bytes"
	"net/http/httptest"
	"reflect"
	"testing"

	"github.com/gookit/rux/pkg/binding"
)

// FuzzBind: method index, content-type index, body bytes, query string. Oracle inside the target: error or value,
// never a panic; unknown content types are an error for methods with a body; a successful JSON/form bind
// re-encoded in the same format binds to the same value again; with the validator on, success implies validity.
func FuzzBind(f *testing.F) {
	p := Payload{Age: 3, Name: "a&b=c é", Active: true, Score: -5, Tags: []string{"x", ""}}
	for i, fm := range formats {
		b, _ := encode(p, fm)
		f.Add(byte(1), byte(i), b, values(p).Encode())
		f.Add(byte(0), byte(i), b, "name=q&age=x")
	}
	f.Add(byte(2), byte(2), []byte(`{"name":"x","age":"notanumber"}`), "")
	f.Add(byte(1), byte(3), []byte(`<payload><name>x</name><age>1</age></payload>`), "")
	f.Add(byte(1), byte(2), []byte(`{"name":"x","tags":[[[[[[`), "")
	f.Add(byte(1), byte(0), []byte(`name=x&tags[=1&age=%zz`), "")
	methods := []string{"GET", "POST", "PUT", "PATCH", "DELETE", "OPTIONS", "HEAD"}
	cts := []string{"application/x-www-form-urlencoded", "multipart/form-data; boundary=verifharnessboundary0123456789", "application/json", "application/xml", "text/plain", ""}
	f.Fuzz(func(t *testing.T, mi, ci byte, body []byte, query string) {
		if len(body) > 4000 || len(query) > 1000 {
			return
		}
		binding.ResetValidator()
		method, ct := methods[int(mi)%len(methods)], cts[int(ci)%len(cts)]
		target := "/x"
		req := httptest.NewRequest(method, target, bytes.NewReader(body))
		req.URL.RawQuery = query
		if ct != "" {
			req.Header.Set("Content-Type", ct)
		}
		var got Payload
		err := binding.Auto(req, &got)
		hasBody := method == "POST" || method == "PUT" || method == "PATCH"
		if hasBody && (ct == "text/plain" || ct == "") && err == nil {
			t.Fatalf("%s with Content-Type %q bound %+v without error", method, ct, got)
		}
		if err != nil {
			return
		}
		if got.Name == "" || independentValidate(&got) != nil {
			t.Fatalf("bind succeeded but the value %+v does not pass validation", got)
		}
		if hasBody && (ct == "application/json" || ct == "application/x-www-form-urlencoded") {
			fm := "json"
			if ct != "application/json" {
				fm = "form"
			}
			b2, ct2 := encode(got, fm)
			req2 := httptest.NewRequest(method, "/x", bytes.NewReader(b2))
			req2.Header.Set("Content-Type", ct2)
			var again Payload
			if err := binding.Auto(req2, &again); err != nil {
				t.Fatalf("re-binding the re-encoded value %+v failed: %v", got, err)
			}
			if !reflect.DeepEqual(got.norm(), again.norm()) {
				t.Fatalf("re-encode/re-bind: %+v became %+v", got.norm(), again.norm())
			}
		}
	})
}
