package c08

import (
	"testing"

	"github.com/gookit/rux"

	"verifharness/chain"
)

func one(ops ...chain.Op) string {
	w := chain.NewWorld()
	prog := &chain.Program{Body: []*chain.Stmt{{Kind: "route", Path: "/x", Methods: []string{"GET"}, Main: w.NewScript("h", ops...)}}}
	msg, _ := chain.CheckRequest(w, prog.Apply(w), prog.Model(), "GET", "/x")
	return msg
}

// D10: SetStatus(404); Flush(); Write("x") must send 404 before the flush.
func TestRegress(t *testing.T) {
	cases := [][]chain.Op{
		{{K: chain.OpStatus, N: 404}, {K: chain.OpFlush}, {K: chain.OpWrite, S: "x"}},
		{{K: chain.OpFlush}},
		{{K: chain.OpFlush}, {K: chain.OpStatus, N: 500}, {K: chain.OpWrite, S: "x"}},
		{{K: chain.OpStatus, N: 201}, {K: chain.OpStatus, N: 0}, {K: chain.OpStatus, N: -1}, {K: chain.OpWrite, S: ""}, {K: chain.OpStatus, N: 500}, {K: chain.OpWrite, S: "ab"}},
		{},
		{{K: chain.OpStatus, N: 204}},
	}
	for i, ops := range cases {
		if msg := one(ops...); msg != "" {
			t.Errorf("case %d: %s", i, msg)
		}
	}
}

// D19: a HandlerFunc used directly as an http.Handler must commit the recorded status.
func TestRegressHandlerFuncServeHTTP(t *testing.T) {
	for _, ops := range [][]chain.Op{
		{{K: chain.OpStatus, N: 404}},
		{},
		{{K: chain.OpRespWriteHeader, N: 204}},
		{{K: chain.OpStatus, N: 403}, {K: chain.OpFlush}},
	} {
		w := chain.NewWorld()
		s := w.NewScript("hf", ops...)
		st := w.NewRequest("GET", "/direct")
		rux.HandlerFunc(w.Handler(s)).ServeHTTP(st.Rec, st.Req)
		want, _ := chain.ModelDispatch([]*chain.Script{s}, chain.Hooks{}, chain.NewRec(), st.Req, nil, false)
		if st.Rec.Log() != want.Log {
			t.Errorf("%s: underlying writer got %q, want %q", s, st.Rec.Log(), want.Log)
		}
	}
}
