package c08

import (
	"testing"

	"verifharness/chain"
)

func one(ops ...chain.Op) string {
	w := chain.NewWorld()
	prog := &chain.Program{Body: []*chain.Stmt{{Kind: "route", Path: "/x", Methods: []string{"GET"}, Main: w.NewScript("h", ops...)}}}
	msg, _ := chain.CheckRequest(w, prog.Apply(w), prog.Model(), "GET", "/x")
	return msg
}

// D10: SetStatus(404); Flush(); Write("x") must send 404 before the flush.
func TestRegress(t *testing.T) {
	cases := [][]chain.Op{
		{{K: chain.OpStatus, N: 404}, {K: chain.OpFlush}, {K: chain.OpWrite, S: "x"}},
		{{K: chain.OpFlush}},
		{{K: chain.OpFlush}, {K: chain.OpStatus, N: 500}, {K: chain.OpWrite, S: "x"}},
		{{K: chain.OpStatus, N: 201}, {K: chain.OpStatus, N: 0}, {K: chain.OpStatus, N: -1}, {K: chain.OpWrite, S: ""}, {K: chain.OpStatus, N: 500}, {K: chain.OpWrite, S: "ab"}},
		{},
		{{K: chain.OpStatus, N: 204}},
	}
	for i, ops := range cases {
		if msg := one(ops...); msg != "" {
			t.Errorf("case %d: %s", i, msg)
		}
	}
}
