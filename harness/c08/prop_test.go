// C08 — exactly one header commit per request, with the status set before the body.
package c08

import (
	"fmt"
	"net/http"
	"net/http/httptest"
	"strings"
	"testing"

	"github.com/gookit/rux"
	"pgregory.net/rapid"

	"verifharness/chain"
	"verifharness/ev"
	"verifharness/model"
)

func TestMain(m *testing.M) { ev.Main(m) }

var codeGen = rapid.OneOf(
	rapid.SampledFrom([]int{-1, 0, 100, 101, 200, 201, 204, 206, 301, 302, 304, 400, 404, 418, 500, 503, 599, 600, 799, 999}),
	rapid.IntRange(100, 599),
)

// plainWrites turns WriteString ops into plain writes: Context.WriteString panics on a write error, and a write fault
// combined with it is a panic scenario (C09's business), not a commit scenario.
func plainWrites(scripts ...*chain.Script) {
	for _, s := range scripts {
		if s == nil {
			continue
		}
		for i := range s.Ops {
			if s.Ops[i].K == chain.OpWrite && s.Ops[i].N == 1 {
				s.Ops[i].N = 0
			}
			if s.Ops[i].K == chain.OpBlob && s.Ops[i].S2 != "stream" {
				s.Ops[i].S = "" // Context.Blob panics on a write error too
			}
		}
	}
}

func genOp(t *rapid.T) chain.Op {
	switch rapid.IntRange(0, 14).Draw(t, "op") {
	case 0, 1, 2:
		return chain.Op{K: chain.OpStatus, N: codeGen.Draw(t, "code")}
	case 3, 4, 5:
		op := chain.Op{K: chain.OpWrite, S: rapid.StringMatching(`[a-z]{0,8}`).Draw(t, "data")}
		if rapid.IntRange(0, 9).Draw(t, "bigWrite") == 0 {
			// bodies beyond any small buffer: 1-5 KB
			op.S = strings.Repeat(op.S+"0123456789abcdef", rapid.IntRange(70, 300).Draw(t, "bigReps"))
		}
		switch rapid.IntRange(0, 5).Draw(t, "writeVia") {
		case 0:
			op.N = 1 // Context.WriteString instead of Resp.Write
		case 1:
			if op.S != "" {
				op.N = 2 // io.Copy(c.Resp, reader): the body is streamed into the writer
			}
		}
		return op
	case 6:
		return chain.Op{K: chain.OpFlush}
	case 7:
		if rapid.Bool().Draw(t, "observeInsteadOfFlush") {
			return chain.Op{K: chain.OpObserve} // logging / metrics code reads Length(), StatusCode(), RawWriter() ...
		}
		return chain.Op{K: chain.OpFlush}
	case 8:
		return chain.Op{K: chain.OpHeader, S: rapid.SampledFrom([]string{"X-A", "Content-Type", "Content-Length"}).Draw(t, "hk"), S2: rapid.StringMatching(`[a-z0-9]{1,3}`).Draw(t, "hv")}
	case 9:
		return chain.Op{K: chain.OpHTTPError, N: rapid.SampledFrom([]int{400, 404, 500}).Draw(t, "ecode"), S: rapid.StringMatching(`[a-z]{0,5}`).Draw(t, "emsg")}
	case 10:
		return chain.Op{K: chain.OpRedirect, N: rapid.SampledFrom([]int{301, 302, 307}).Draw(t, "rcode"), S: "/" + rapid.StringMatching(`[a-z]{0,3}`).Draw(t, "rurl")}
	case 13:
		// an abort that records a status (nothing is committed by it): later status / header settings still count
		return chain.Op{K: chain.OpAbortStatus, N: rapid.SampledFrom([]int{401, 403, 503}).Draw(t, "abortStatus")}
	case 12:
		// the handler keeps a copy of its context for a background job, or wraps the response writer
		return chain.Op{K: rapid.SampledFrom([]chain.OpKind{chain.OpCopy, chain.OpWrapResp}).Draw(t, "copyOrWrap")}
	case 11:
		// a response helper: status and content type, and the data - which may be empty ("only write headers")
		op := chain.Op{K: chain.OpBlob, N: rapid.SampledFrom([]int{200, 201, 404, 500}).Draw(t, "blobStatus"), S: rapid.SampledFrom([]string{"", "", "blob"}).Draw(t, "blobData")}
		if rapid.IntRange(0, 2).Draw(t, "stream") == 0 {
			op.S2 = "stream" // Context.Stream: the body comes from a reader, after earlier writes or before later ones
			op.S = rapid.SampledFrom([]string{"", "streamed", strings.Repeat("0123456789", 4000)}).Draw(t, "streamData")
		}
		return op
	default:
		return chain.Op{K: chain.OpRespWriteHeader, N: codeGen.Draw(t, "code")}
	}
}

// genCase distributes 1-20 ops over a chain of 1-4 handlers.
func genCase(t *rapid.T, w *chain.World) (*chain.Program, []chain.Op, []chain.Fault) {
	nh := rapid.IntRange(1, 4).Draw(t, "nhandlers")
	nops := rapid.IntRange(0, ev.Pick(12, 20)).Draw(t, "nops")
	var all []chain.Op
	scripts := make([]*chain.Script, nh)
	for i := range scripts {
		scripts[i] = w.NewScript("h")
	}
	// every middleware calls Next once, somewhere among its ops
	pos := make([][]chain.Op, nh)
	for i := 0; i < nops; i++ {
		op := genOp(t)
		all = append(all, op)
		h := rapid.IntRange(0, nh-1).Draw(t, "inHandler")
		pos[h] = append(pos[h], op)
	}
	for i := range scripts {
		ops := pos[i]
		if i < nh-1 {
			at := rapid.IntRange(0, len(ops)).Draw(t, "nextAt")
			ops = append(append(append([]chain.Op{}, ops[:at]...), chain.Op{K: chain.OpNext}), ops[at:]...)
		}
		scripts[i].Ops = ops
	}
	st := &chain.Stmt{Kind: "route", Path: "/x", Methods: []string{"GET"}, Style: 0, Main: scripts[nh-1], Variadic: scripts[:nh-1]}
	var body []*chain.Stmt
	if nh > 1 && rapid.Bool().Draw(t, "firstIsGlobal") {
		st.Variadic = scripts[1 : nh-1]
		body = append(body, &chain.Stmt{Kind: "use", Hs: scripts[:1]})
	}
	body = append(body, st)
	// a second route whose own handler does nothing at all (requested after the main request, see prop)
	body = append(body, &chain.Stmt{Kind: "route", Path: "/quiet", Methods: []string{"GET"}, Style: 0, Main: w.NewScript("quiet")})
	var faults []chain.Fault
	if rapid.IntRange(0, 2).Draw(t, "faulty") == 0 {
		for i, n := 0, rapid.IntRange(1, 2).Draw(t, "nfaults"); i < n; i++ {
			faults = append(faults, chain.Fault{Write: rapid.IntRange(0, 4).Draw(t, "faultAt"), Accept: rapid.IntRange(0, 3).Draw(t, "accept")})
		}
	}
	prog := &chain.Program{Opts: model.Options{}, Body: body}
	// one case in four: handlers record errors and an OnError hook (made of writer ops) reacts to them at the end
	if rapid.IntRange(0, 3).Draw(t, "erroring") == 0 {
		for i, k := 0, rapid.IntRange(1, 2).Draw(t, "nAddError"); i < k; i++ {
			h := scripts[rapid.IntRange(0, nh-1).Draw(t, "errorIn")]
			at := rapid.IntRange(0, len(h.Ops)).Draw(t, "errorAt")
			h.Ops = append(append(append([]chain.Op{}, h.Ops[:at]...), chain.Op{K: chain.OpAddError}), h.Ops[at:]...)
		}
		var hook []chain.Op
		for i, k := 0, rapid.IntRange(0, 3).Draw(t, "nOnErrorOps"); i < k; i++ {
			hook = append(hook, genOp(t))
		}
		prog.Hooks.OnError = w.NewScript("onerror", hook...)
	}
	// rarely a handler takes over the connection
	if rapid.IntRange(0, 9).Draw(t, "hijacking") == 0 {
		h := scripts[rapid.IntRange(0, nh-1).Draw(t, "hijackIn")]
		at := rapid.IntRange(0, len(h.Ops)).Draw(t, "hijackAt")
		h.Ops = append(append(append([]chain.Op{}, h.Ops[:at]...), chain.Op{K: chain.OpHijack}), h.Ops[at:]...)
	}
	// one case in four: a handler panics somewhere among its ops and an OnPanic hook sets the status / writes
	if rapid.IntRange(0, 3).Draw(t, "panicking") == 0 {
		h := scripts[rapid.IntRange(0, nh-1).Draw(t, "panicIn")]
		at := rapid.IntRange(0, len(h.Ops)).Draw(t, "panicAt")
		h.Ops = append(append(append([]chain.Op{}, h.Ops[:at]...), chain.Op{K: chain.OpPanic, S: h.Name}), h.Ops[at:]...)
		var hook []chain.Op
		for i, k := 0, rapid.IntRange(0, 3).Draw(t, "nhookOps"); i < k; i++ {
			hook = append(hook, genOp(t))
		}
		prog.Hooks.OnPanic = w.NewScript("onpanic", hook...)
	}
	if len(faults) > 0 {
		plainWrites(append(append([]*chain.Script{}, scripts...), prog.Hooks.OnError, prog.Hooks.OnPanic)...)
	}
	return prog, all, faults
}

func classify(prog *chain.Program, faults []chain.Fault) (nontrivial []string) {
	// walk the ops in execution order: pre-parts outer->inner then post-parts inner->outer
	var order []chain.Op
	var scripts []*chain.Script
	for _, s := range prog.Body {
		if s.Kind == "use" {
			scripts = append(scripts, s.Hs...)
		} else {
			scripts = append(scripts, s.Variadic...)
			scripts = append(scripts, s.Main)
		}
	}
	var rec func(i int)
	rec = func(i int) {
		for _, o := range scripts[i].Ops {
			if o.K == chain.OpNext {
				if i+1 < len(scripts) {
					rec(i + 1)
				}
				continue
			}
			order = append(order, o)
		}
	}
	rec(0)
	committed := false
	firstWrite := true
	for _, o := range order {
		switch o.K {
		case chain.OpFlush:
			if !committed {
				nontrivial = append(nontrivial, "flush-before-first-write")
			}
			committed = true
		case chain.OpWrite:
			if firstWrite && o.S == "" {
				nontrivial = append(nontrivial, "zero-length-first-write")
			}
			firstWrite = false
			committed = true
		case chain.OpHTTPError, chain.OpRedirect:
			committed = true
			firstWrite = false
		case chain.OpStatus, chain.OpRespWriteHeader:
			if committed && o.N > 0 {
				nontrivial = append(nontrivial, "status-change-after-commit")
			}
			if o.N <= 0 {
				nontrivial = append(nontrivial, "non-positive-status")
			}
		}
	}
	if !committed {
		nontrivial = append(nontrivial, "nothing-written")
	}
	if len(faults) > 0 {
		nontrivial = append(nontrivial, "faulted-write")
	}
	if prog.Hooks.OnPanic != nil {
		nontrivial = append(nontrivial, "panic-with-OnPanic-hook")
	}
	if prog.Hooks.OnError != nil {
		nontrivial = append(nontrivial, "errors-with-OnError-hook")
	}
	return
}

// genForward: the handler of /x performs some writer ops and then forwards the same context to /y
// (Router.HandleContext, an internal redirect); /y is served by a chain of 1-3 handlers. It is still ONE request:
// one header commit, the status recorded before the forward counts unless /y sets another one.
func genForward(t *rapid.T, w *chain.World) (*chain.Program, []chain.Fault) {
	var pre []chain.Op
	for i, k := 0, rapid.IntRange(0, 4).Draw(t, "npre"); i < k; i++ {
		pre = append(pre, genOp(t))
	}
	pre = append(pre, chain.Op{K: chain.OpForward, S2: "/y"})
	x := &chain.Stmt{Kind: "route", Path: "/x", Methods: []string{"GET"}, Main: w.NewScript("fwd", pre...)}
	n := rapid.IntRange(1, 3).Draw(t, "ninner")
	hs := make([]*chain.Script, n)
	for i := range hs {
		var ops []chain.Op
		for j, k := 0, rapid.IntRange(0, 3).Draw(t, "nops"); j < k; j++ {
			ops = append(ops, genOp(t))
		}
		if i < n-1 {
			at := rapid.IntRange(0, len(ops)).Draw(t, "nextAt")
			ops = append(append(append([]chain.Op{}, ops[:at]...), chain.Op{K: chain.OpNext}), ops[at:]...)
		}
		hs[i] = w.NewScript("y", ops...)
	}
	y := &chain.Stmt{Kind: "route", Path: "/y", Methods: []string{"GET"}, Main: hs[n-1], Variadic: hs[:n-1]}
	var faults []chain.Fault
	if rapid.IntRange(0, 3).Draw(t, "faulty") == 0 {
		faults = append(faults, chain.Fault{Write: rapid.IntRange(0, 3).Draw(t, "faultAt"), Accept: rapid.IntRange(0, 3).Draw(t, "accept")})
	}
	prog := &chain.Program{Opts: model.Options{}, Body: []*chain.Stmt{x, y}}
	if len(faults) > 0 {
		plainWrites(prog.AllScripts()...)
	}
	return prog, faults
}

func propForward(t *rapid.T) {
	ev.Case()
	w := chain.NewWorld()
	prog, faults := genForward(t, w)
	pm := prog.Model()
	pm.EnableForward()
	r := prog.Apply(w)
	ev.Eval()
	msg, _ := chain.CheckRequest(w, r, pm, "GET", "/x", faults...)
	ev.Class("forwarded-request")
	ev.NonTrivial("fwd"+prog.Scripts()+fmt.Sprint(faults), func() string { return fmt.Sprintf("faults=%v chain:\n%s", faults, prog.Scripts()) })
	if msg != "" {
		t.Fatalf("%s\nfaults=%v\nscripts:\n%s", msg, faults, prog.Scripts())
	}
}

func TestPropForward(t *testing.T) { rapid.Check(t, propForward) }

func prop(t *rapid.T) {
	ev.Case()
	w := chain.NewWorld()
	prog, _, faults := genCase(t, w)
	pm := prog.Model()
	r := prog.Apply(w)
	ev.Eval()
	msg, _ := chain.CheckRequest(w, r, pm, "GET", "/x", faults...)
	nt := classify(prog, faults)
	for _, c := range nt {
		ev.Class("nontrivial:" + c)
	}
	if len(nt) > 0 {
		ev.NonTrivial(prog.Scripts()+fmt.Sprint(faults), func() string { return fmt.Sprintf("faults=%v chain:\n%s", faults, prog.Scripts()) })
	}
	if msg != "" {
		t.Fatalf("%s\nfaults=%v\nscripts:\n%s", msg, faults, prog.Scripts())
	}
	// whatever the first request did to its writer (faults, hijack, panic), the requests after it - served with the
	// recycled context - commit exactly once as well: a route whose handler writes nothing, and the same request again
	for _, path := range []string{"/quiet", "/x"} {
		ev.Eval()
		if msg, _ := chain.CheckRequest(w, r, pm, "GET", path); msg != "" {
			t.Fatalf("follow-up request after GET /x (faults=%v): %s\nscripts:\n%s", faults, msg, prog.Scripts())
		}
	}
	ev.Class("follow-up-requests-on-the-recycled-context")
}

func TestProp(t *testing.T) { rapid.Check(t, prop) }

// propHandlerFunc: a rux.HandlerFunc used directly as an http.Handler (HandlerFunc.ServeHTTP) is a request with a
// chain of one handler; the same contract applies to it.
func propHandlerFunc(t *rapid.T) {
	ev.Case()
	w := chain.NewWorld()
	var ops []chain.Op
	for i, k := 0, rapid.IntRange(0, 8).Draw(t, "nops"); i < k; i++ {
		ops = append(ops, genOp(t))
	}
	s := w.NewScript("hf", ops...)
	var faults []chain.Fault
	if rapid.IntRange(0, 3).Draw(t, "faulty") == 0 {
		faults = append(faults, chain.Fault{Write: rapid.IntRange(0, 3).Draw(t, "faultAt"), Accept: rapid.IntRange(0, 3).Draw(t, "accept")})
	}
	if len(faults) > 0 {
		plainWrites(s)
	}
	st := w.NewRequest("GET", "/direct", faults...)
	var h http.Handler = rux.HandlerFunc(w.Handler(s))
	h.ServeHTTP(st.Rec, st.Req)
	want, _ := chain.ModelDispatch([]*chain.Script{s}, chain.Hooks{}, chain.NewRec(faults...), st.Req, nil, false)
	ev.Eval()
	got := chain.Outcome{Trace: st.Tr.String(), Log: st.Rec.Log()}
	if d := chain.Diff(got, want); d != "" {
		t.Fatalf("HandlerFunc.ServeHTTP: %s\nfaults=%v\nscript: %s", d, faults, s)
	}
	if err := st.Rec.CheckCommit(); err != nil {
		t.Fatalf("HandlerFunc.ServeHTTP: %v\nscript: %s", err, s)
	}
	ev.Class("HandlerFunc-as-http.Handler")
	ev.NonTrivial("hf"+s.String()+fmt.Sprint(faults), func() string { return "HandlerFunc.ServeHTTP " + s.String() })
}

func TestPropHandlerFunc(t *testing.T) { rapid.Check(t, propHandlerFunc) }

// propRouterInsideRouter: a router (or a rux.HandlerFunc) mounted as the handler of a route of another router through
// WrapHTTPHandler - sub-applications are mounted that way.  The writer the client is behind still receives exactly one
// WriteHeader, before any body byte, carrying the status the inner handler set; the body is what the inner handler wrote.
func propRouterInsideRouter(t *rapid.T) {
	ev.Case()
	status := rapid.SampledFrom([]int{0, 200, 201, 404, 500}).Draw(t, "innerStatus")
	body := rapid.SampledFrom([]string{"", "x", "inner body"}).Draw(t, "innerBody")
	outerStatus := rapid.SampledFrom([]int{0, 202}).Draw(t, "statusSetByOuterMiddleware")
	innerH := func(c *rux.Context) {
		if status > 0 {
			c.SetStatus(status)
		}
		if body != "" {
			c.WriteString(body)
		}
	}
	var mounted http.Handler
	switch rapid.IntRange(0, 1).Draw(t, "innerKind") {
	case 0:
		in := rux.New()
		in.GET("/in", innerH)
		mounted = in
	default:
		mounted = rux.HandlerFunc(innerH)
	}
	outer := rux.New()
	outer.Use(func(c *rux.Context) {
		if outerStatus > 0 {
			c.SetStatus(outerStatus)
		}
		c.Next()
	})
	outer.GET("/in", rux.WrapHTTPHandler(mounted))
	rec := chain.NewRec()
	outer.ServeHTTP(rec, httptest.NewRequest("GET", "/in", nil))
	ev.Eval()
	// (the inner handler commits its own response when its chain ends - 200 when it set nothing; to the outer
	// request that is the last status set, whatever an outer middleware recorded before)
	want := 200
	if status > 0 {
		want = status
	}
	ctx := fmt.Sprintf("inner status %d body %q, outer middleware status %d: the client's writer received %s", status, body, outerStatus, rec.Log())
	if hc := rec.HeaderCommits(); len(hc) != 1 || hc[0] != want {
		t.Fatalf("WriteHeader calls %v, want exactly one with %d: %s", hc, want, ctx)
	}
	if err := rec.CheckCommit(); err != nil {
		t.Fatalf("%v: %s", err, ctx)
	}
	if rec.Body() != body {
		t.Fatalf("body %q, want %q: %s", rec.Body(), body, ctx)
	}
	ev.Class("router-or-HandlerFunc-mounted-inside-a-route")
	ev.NonTrivial(fmt.Sprint(status, body, outerStatus), func() string { return ctx })
}

func TestPropRouterInsideRouter(t *testing.T) { rapid.Check(t, propRouterInsideRouter) }
