#!/usr/bin/env python3
"""Regenerates /verif/MANIFEST.json from checks.json (one source of truth for the check list)."""
import json, os
ROOT = os.path.dirname(os.path.dirname(os.path.abspath(__file__)))
checks = json.load(open(os.path.join(ROOT, "checks.json")))
props = [json.loads(l) for l in open(os.path.join(ROOT, "properties.jsonl"))]
pending = json.load(open(os.path.join(ROOT, "tools", "not_applicable.json")))
hooks = ["ffd6034"]
m = {
    "version": 1,
    "setup_cmd": "./check setup",
    "hooks": {
        "guard": "verif",
        "enable": "go build tag: every check builds with `go test -tags verif` through `replace github.com/gookit/rux => /repo` in harness/go.mod",
        "baseline_off_cmd": "cd /repo && GOFLAGS=-mod=mod go test -vet=off -count=1 ./...",
        "source_commits": hooks,
        "add_only": True,
    },
    "engines": [
        {"name": "rapid", "path": "harness/", "serves_properties": sorted(checks),
         "kind_free_text": "pgregory.net/rapid v1.3.0 property-based tests (stateless and t.Repeat state machines), sharded over processes by ./check; oracles: reference model in harness/model, twin routers, round trips"},
        {"name": "go-native-fuzz", "path": "harness/", "serves_properties": sorted(k for k, v in checks.items() if v.get("fuzz")),
         "kind_free_text": "go test -fuzz (coverage guided), thorough tier only, semantic oracle inside each target"},
        {"name": "go-race-detector", "path": "harness/", "serves_properties": sorted(k for k, v in checks.items() if v.get("race")),
         "kind_free_text": "generated concurrent workloads compiled with -race (sanitizer-style oracle)"},
    ],
    "checks": [],
    "not_applicable": [],
    "notes": "All checks are generated-input searches against explicit oracles (DESIGN.md). exit 2 of ./check means inconclusive (build failure/timeout), never a violation.",
}
for pid in sorted(checks):
    c = checks[pid]
    m["checks"].append({
        "property_id": pid,
        "quick_cmd": "./check %s quick" % pid,
        "thorough_cmd": "./check %s thorough" % pid,
        "evidence_file": "/verif/evidence/%s.json" % pid,
        "replay_cmd_template": "./check %s --replay {path}" % pid,
        "engine": "rapid",
        "technique": c["technique"],
        "level_claimed": {"category": "exploration", "text": c["level_text"], "design_ref": "DESIGN.md section 3, " + pid},
        "level_note": c["level_note"],
    })
for p in props:
    if p["id"] not in checks:
        m["not_applicable"].append({"property_id": p["id"], "reason": pending.get(p["id"], "check under construction (DESIGN.md section 3); not claimed until built and soaked")})
json.dump(m, open(os.path.join(ROOT, "MANIFEST.json"), "w"), indent=1)
print("MANIFEST.json: %d checks, %d not_applicable" % (len(m["checks"]), len(m["not_applicable"])))
