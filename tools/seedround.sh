#!/bin/bash
# usage: tools/seedround.sh <round-number>   - prepares /tmp/wt<N>-<ID> worktrees and /tmp/seeded-out<N>/<ID>/prompt.txt
set -e
N=$1
python3 - "$N" <<'PY'
import json,sys,subprocess,os
n=sys.argv[1]
import os.path
tpl=open("/verif/tools/seedprompt%s.txt"%n if os.path.exists("/verif/tools/seedprompt%s.txt"%n) else "/verif/tools/seedprompt.txt").read()
for l in open('/verif/properties.jsonl'):
    p=json.loads(l); i=p['id']
    wt=f'/tmp/wt{n}-{i}'; out=f'/tmp/seeded-out{n}/{i}'
    os.makedirs(out,exist_ok=True)
    if not os.path.isdir(wt):
        subprocess.run(['git','-C','/repo','worktree','add','-q','--detach',wt,'HEAD'],check=True)
    s=tpl.replace('@WT@',wt).replace('@OUT@',out).replace('@IDN@',i).replace('@ID@',i).replace('@TITLE@',p.get('title','')).replace('@STATEMENT@',p['statement'])
    open(out+'/prompt.txt','w').write(s)
print('ok')
PY
