#!/usr/bin/env python3
"""Deliberate breakages of /repo (DESIGN.md section 6, the "Catches" lists): each mutation is a textual replacement
that compiles; the named check must report a violation.  /repo is always restored.

  tools/selfmutate.py [name ...]     run the named mutations (default: all), print a table, write notes/selfmutate.json
"""
import json
import os
import re
import subprocess
import sys
import time

ROOT = os.path.dirname(os.path.dirname(os.path.abspath(__file__)))
REPO = "/repo"
ENV = dict(os.environ, GOFLAGS="-mod=mod", GOPROXY="off", GOSUMDB="off", GOTOOLCHAIN="local",
           VERIF_EVIDENCE_DIR=os.path.join(ROOT, ".build", "mutant-evidence"), VERIF_REPLAYS_DIR=os.path.join(ROOT, ".build", "mutant-replays"))

# name, file, old, new, checks
M = [
    ("tier-order-swapped", "parse_match.go", "\t// find in regular routes\n\tif pos := strings.IndexByte(path[1:], '/'); pos > 0 {", "\t// find in regular routes\n\tif rs, ok := r.irregularRoutes[method]; ok {\n\t\tfor _, route := range rs {\n\t\t\tif ps, ok := route.matchRegex(path); ok {\n\t\t\t\treturn route, ps\n\t\t\t}\n\t\t}\n\t}\n\tif pos := strings.IndexByte(path[1:], '/'); pos > 0 {", ["C01"]),
    ("anchor-dollar-dropped", "parse_match.go", 'route.regex = regexp.MustCompile("^" + regexStr + "$")\n\troute.goodRegexGroups()\n\treturn\n}\n\n// save', 'route.regex = regexp.MustCompile("^" + regexStr)\n\troute.goodRegexGroups()\n\treturn\n}\n\n// save', ["C01"]),
    ("dot-not-escaped", "utils.go", 'return strings.Replace(path, ".", `\\.`, -1)', "return path", ["C01"]),
    ("default-var-widened", "rux.go", "anyMatch = `[^/]+`", "anyMatch = `.+`", ["C01", "C02"]),
    ("params-off-by-one", "route.go", "\tfor i, val := range vs[1:] {\n\t\t// n := r.matches[i]\n\t\tps[r.matches[i]] = val\n\t}", "\tfor i, val := range vs[1:] {\n\t\tif i+1 < len(r.matches) {\n\t\t\tps[r.matches[i+1]] = val\n\t\t} else {\n\t\t\tps[r.matches[0]] = val\n\t\t}\n\t}", ["C02"]),
    ("head-fallback-after-fallback-route", "parse_match.go", "\t// for HEAD requests, attempt fallback to GET\n\tif method == HEAD {\n\t\troute, ps = r.match(GET, path)\n\t\tif route != nil {\n\t\t\treturn\n\t\t}\n\t}\n\n\t// handle fallback route. add by: router->Any(\"/*\", handler)\n\tif r.handleFallbackRoute {\n\t\tkey := method + \"/*\"\n\t\tif route, ok := r.stableRoutes[key]; ok {\n\t\t\treturn route, nil, nil\n\t\t}\n\t}", "\t// handle fallback route. add by: router->Any(\"/*\", handler)\n\tif r.handleFallbackRoute {\n\t\tkey := method + \"/*\"\n\t\tif route, ok := r.stableRoutes[key]; ok {\n\t\t\treturn route, nil, nil\n\t\t}\n\t}\n\n\t// for HEAD requests, attempt fallback to GET\n\tif method == HEAD {\n\t\troute, ps = r.match(GET, path)\n\t\tif route != nil {\n\t\t\treturn\n\t\t}\n\t}", ["C06"]),
    ("allow-includes-current-method", "parse_match.go", "\t\tif m == method { // expected current method\n\t\t\tcontinue\n\t\t}\n", "", ["C06"]),
    ("allow-unsorted", "dispatch.go", "\tsort.Strings(allowed)\n", "\tsort.Sort(sort.Reverse(sort.StringSlice(allowed)))\n", ["C06"]),
    ("cache-key-without-method", "parse_match.go", "route, ok := r.cachedRoutes.Get(method + path)", "route, ok := r.cachedRoutes.Get(path)", ["C07", "C14"]),
    ("cache-key-without-method-both", "parse_match.go", None, None, ["C07"]),
    ("cache-before-static", "parse_match.go", "\t// find in stable routes\n\tif route, ok := r.stableRoutes[method+path]; ok {\n\t\t// return r.newMatchResult(route, nil)\n\t\treturn route, nil\n\t}\n\n\t// find in cached routes\n\tif r.enableCaching && r.cachedRoutes != nil {\n\t\troute, ok := r.cachedRoutes.Get(method + path)\n\t\tif ok {\n\t\t\treturn route, route.params\n\t\t}\n\t}", "\t// find in cached routes\n\tif r.enableCaching && r.cachedRoutes != nil {\n\t\troute, ok := r.cachedRoutes.Get(method + path)\n\t\tif ok {\n\t\t\treturn route, route.params\n\t\t}\n\t}\n\n\t// find in stable routes\n\tif route, ok := r.stableRoutes[method+path]; ok {\n\t\t// return r.newMatchResult(route, nil)\n\t\treturn route, nil\n\t}", ["C07"]),
    ("lru-evicts-front", "route_cache.go", "lastElement := c.list.Back()", "lastElement := c.list.Front().Next()", ["C14"]),
    ("lru-get-no-refresh", "route_cache.go", "\tif element, ok := c.hashMap[k]; ok {\n\t\tc.list.MoveToFront(element)\n\n\t\tcacheNode := element.Value.(*cacheNode)\n\t\treturn cacheNode.Value, true", "\tif element, ok := c.hashMap[k]; ok {\n\t\tcacheNode := element.Value.(*cacheNode)\n\t\treturn cacheNode.Value, true", ["C14"]),
    ("group-mw-after-route-mw", "router.go", "route.handlers = combineHandlers(r.currentGroupHandlers, route.handlers)", "route.handlers = combineHandlers(route.handlers, r.currentGroupHandlers)", ["C04", "C12"]),
    ("group-handlers-not-restored", "router.go", "\tr.currentGroupHandlers = prevHandlers\n}", "\t_ = prevHandlers\n}", ["C12", "C04"]),
    ("group-prefix-not-restored", "router.go", "\tr.currentGroupPrefix = prevPrefix\n\tr.currentGroupHandlers = prevHandlers", "\t_ = prevPrefix\n\tr.currentGroupHandlers = prevHandlers", ["C12"]),
    ("use-in-group-leaks-global", "middleware.go", "\tif r.currentGroupPrefix != \"\" {\n\t\tr.currentGroupHandlers = append(r.currentGroupHandlers, middles...)\n\t\treturn\n\t}", "\tif r.currentGroupPrefix != \"\" {\n\t\tr.currentGroupHandlers = append(r.currentGroupHandlers, middles...)\n\t}", ["C12", "C04"]),
    ("notfound-without-global-mw", "dispatch.go", "\t\thandlers = combineHandlers(r.handlers, r.noRoute)", "\t\thandlers = combineHandlers(nil, r.noRoute)", ["C04"]),
    ("abort-sentinel-gt", "context.go", "\treturn c.index >= abortIndex", "\treturn c.index > abortIndex", ["C05"]),
    ("next-restarts-after-abort", "context.go", "\tif c.index >= s {\n\t\treturn\n\t}\n\n\tc.index++", "\tif c.index >= s && c.index < abortIndex {\n\t\treturn\n\t}\n\tif c.index >= abortIndex {\n\t\tc.index = -1\n\t}\n\n\tc.index++", ["C05"]),
    ("abortwithstatus-no-code", "context.go", "\tif len(msg) == 0 {\n\t\tc.Resp.WriteHeader(code)\n\t} else {", "\tif len(msg) == 0 {\n\t\t_ = code\n\t} else {", ["C05"]),
    ("eager-writeheader", "response_wirter.go", "\t\tw.status = status\n\t}\n", "\t\tw.status = status\n\t\tw.ensureWriteHeader()\n\t}\n", ["C08"]),
    ("status-first-wins", "response_wirter.go", "\tif status > 0 && w.status != status {", "\tif status > 0 && w.status == 0 {", ["C08"]),
    ("length-not-counted-on-error", "response_wirter.go", "\tn, err = w.Writer.Write(b)\n\tw.length += n\n\treturn", "\tn, err = w.Writer.Write(b)\n\tif err == nil {\n\t\tw.length += n\n\t}\n\treturn", ["C08"]),
    ("final-commit-removed", "dispatch.go", "\t\tr.OnError(ctx)\n\t}\n\n\tctx.writer.ensureWriteHeader()", "\t\tr.OnError(ctx)\n\t}\n", ["C08", "C04"]),
    ("reset-keeps-data", "context.go", "\tc.index = -1\n\tc.data = nil\n", "\tc.index = -1\n", ["C10"]),
    ("reset-keeps-errors", "context.go", "\tc.Errors = c.Errors[:0]\n", "", ["C10"]),
    ("reset-keeps-resp", "context.go", "\tc.Resp = &c.writer\n", "\tif c.Resp == nil {\n\t\tc.Resp = &c.writer\n\t}\n", ["C10"]),
    ("writer-reset-keeps-status", "response_wirter.go", "\tw.status = 0\n\tw.length = noWritten", "\tw.length = noWritten", ["C10", "C08"]),
    ("panic-hook-recover-key-missing", "dispatch.go", "\t\t\t\tctx.Set(CTXRecoverResult, ret)\n", "", ["C09"]),
    ("chain-append-shared", "dispatch.go", "\t\thandlers = make(HandlersChain, 0, len(r.handlers)+len(route.handlers)+1)\n\t\thandlers = append(handlers, r.handlers...)\n\t\thandlers = append(handlers, route.handlers...)\n\t\thandlers = append(handlers, route.handler)", "\t\thandlers = append(r.handlers, route.handlers...)\n\t\thandlers = append(handlers, route.handler)", ["C03"]),
    ("cache-lock-removed", "route_cache.go", "\t// Notice: MoveToFront() modifies the list, so the write lock is required.\n\tc.lock.Lock()\n\tdefer c.lock.Unlock()\n", "", ["C03"]),
    ("strict-slash-ignored-at-lookup", "parse_match.go", "\t\tpath = r.formatPath(path)\n\t}\n\n\t// do match route", "\t\tpath = r.formatPath(path)\n\t\tif len(path) > 1 {\n\t\t\tpath = strings.TrimRight(path, \"/\")\n\t\t}\n\t}\n\n\t// do match route", ["C11", "C01"]),
    ("encodedpath-ignored", "dispatch.go", "\tif r.useEncodedPath {\n\t\tpath = ctx.Req.URL.EscapedPath()\n\t}", "\tif r.useEncodedPath && false {\n\t\tpath = ctx.Req.URL.EscapedPath()\n\t}", ["C11"]),
    ("nil-handler-accepted", "route.go", "\tif r.handler == nil {\n\t\tgoutil.Panicf(\"the route handler cannot be empty.(path: '%s')\", r.path)\n\t}\n", "", ["C13"]),
    ("handler-limit-off-by-one", "route.go", "\tif finalSize >= int(abortIndex) {\n\t\tgoutil.Panicf(\"too many handlers(number: %d)\", finalSize)\n\t}\n\n\tr.handlers = append", "\tif finalSize > int(abortIndex) {\n\t\tgoutil.Panicf(\"too many handlers(number: %d)\", finalSize)\n\t}\n\n\tr.handlers = append", ["C13"]),
    ("namedto-does-not-register", "route.go", "\t\trouter.namedRoutes[name] = r\n", "\t\tif _, has := router.namedRoutes[name]; !has {\n\t\t\trouter.namedRoutes[name] = r\n\t\t}\n", ["C15"]),
    ("buildurl-query-escape-path", "extends.go", "goutil.String(b.params[name]))\n\t}\n\n\tu.Path", "url.PathEscape(goutil.String(b.params[name])))\n\t}\n\n\tu.Path", ["C15"]),
    ("resource-create-missing-slash", "router.go", "\"/\"+strings.ToLower(name)+\"/\", action, methods...)\n\t\t\t} else if name == EditAction", "\"/\"+strings.ToLower(name)+\"s/\", action, methods...)\n\t\t\t} else if name == EditAction", ["C16"]),
    ("resource-uses-applied-to-all", "router.go", "\t\t\tif handlers, ok := handlerFuncs[name]; ok {\n\t\t\t\troute.Use(handlers...)\n\t\t\t}", "\t\t\tfor _, handlers := range handlerFuncs {\n\t\t\t\troute.Use(handlers...)\n\t\t\t\tbreak\n\t\t\t}", ["C16"]),
    ("staticfiles-naive-join", "router.go", "\t\tc.Req.URL.Path = c.Param(\"file\")\n\t\tfsHandler.ServeHTTP(c.Resp, c.Req)", "\t\t_ = fsHandler\n\t\tc.File(rootDir + \"/\" + c.Param(\"file\"))", ["C17"]),
    ("staticfiles-ext-unanchored", "router.go", "`%s/{file:.+\\.(?:%s)}`", "`%s/{file:.+\\.(?:%s).*}`", ["C17"]),
    ("bind-put-uses-query", "pkg/binding/binding.go", "if method != \"POST\" && method != \"PUT\" && method != \"PATCH\" {", "if method != \"POST\" && method != \"PATCH\" {", ["C18"]),
    ("bind-form-uses-form-not-postform", "pkg/binding/binding.go", "\t\tif err = r.ParseForm(); err != nil {\n\t\t\treturn err\n\t\t}\n\n\t\treturn Form.BindValues(r.PostForm, obj)", "\t\tif err = r.ParseForm(); err != nil {\n\t\t\treturn err\n\t\t}\n\n\t\treturn Form.BindValues(r.Form, obj)", ["C18"]),
    ("bind-json-skips-validate", "pkg/binding/json.go", "\treturn Validate(ptr)\n}", "\treturn nil\n}", ["C18"]),
    ("render-overrides-content-type", "pkg/render/render.go", "\tif val := header[\"Content-Type\"]; len(val) == 0 {\n\t\tw.Header().Set(\"Content-Type\", value)\n\t}", "\t_ = header\n\tw.Header().Set(\"Content-Type\", value)", ["C19"]),
    ("jsonp-missing-semicolon", "pkg/render/json.go", "w.Write([]byte(\");\"))", "w.Write([]byte(\")\"))", ["C19"]),
    ("auto-text-before-json", "pkg/render/render.go", "\tfor _, accept := range accepts {\n\t\tswitch accept {", "\tfor i := len(accepts) - 1; i >= 0; i-- {\n\t\taccept := accepts[i]\n\t\tswitch accept {", ["C19"]),
    ("auth-403-does-not-abort", "pkg/handlers/middlewares.go", "\t\t\tif !ok || srcPwd != pwd {\n\t\t\t\tc.AbortWithStatus(403)\n\t\t\t}", "\t\t\tif !ok || srcPwd != pwd {\n\t\t\t\tc.SetStatus(403)\n\t\t\t}", ["C20"]),
    ("auth-unknown-user-allowed", "pkg/handlers/middlewares.go", "if !ok || srcPwd != pwd {", "if ok && srcPwd != pwd {", ["C20"]),
    ("override-any-method", "pkg/handlers/handlers.go", "if om == \"PUT\" || om == \"PATCH\" || om == \"DELETE\" {", "if om != \"\" {", ["C20"]),
    ("override-header-first", "pkg/handlers/handlers.go", "\t\t\tom := r.FormValue(HTTPMethodOverrideFormKey)\n\t\t\tif om == \"\" {\n\t\t\t\tom = r.Header.Get(HTTPMethodOverrideHeader)\n\t\t\t}", "\t\t\tom := r.Header.Get(HTTPMethodOverrideHeader)\n\t\t\tif om == \"\" {\n\t\t\t\tom = r.FormValue(HTTPMethodOverrideFormKey)\n\t\t\t}", ["C20"]),
    ("wrap-order-reversed", "dispatch.go", "\t\tcurrent := max - i - 1", "\t\tcurrent := i", ["C20"]),
]


def sh(cmd, cwd=None, timeout=3600):
    p = subprocess.run(cmd, cwd=cwd, env=ENV, stdout=subprocess.PIPE, stderr=subprocess.STDOUT, text=True, timeout=timeout)
    return p.returncode, p.stdout


def clean():
    return sh(["git", "status", "--short"], cwd=REPO)[1].strip() == ""


def main(argv):
    names = set(argv[1:])
    assert clean(), "/repo dirty"
    results = []
    for name, f, old, new, checks in M:
        if old is None or (names and name not in names):
            continue
        path = os.path.join(REPO, f)
        src = open(path).read()
        if src.count(old) != 1:
            print("%-36s SKIP: pattern found %d times in %s" % (name, src.count(old), f), flush=True)
            results.append({"mutation": name, "status": "pattern-not-found"})
            continue
        try:
            open(path, "w").write(src.replace(old, new))
            rc, out = sh(["go", "build", "./..."], cwd=REPO)
            if rc != 0:
                print("%-36s SKIP: does not compile\n%s" % (name, out[-600:]), flush=True)
                results.append({"mutation": name, "status": "does-not-compile"})
                continue
            rc, out = sh(["go", "test", "-vet=off", "-count=1", ".", "./pkg/binding", "./pkg/handlers"], cwd=REPO)
            suite = "suite-passes" if rc == 0 else "suite-FAILS"
            row = {"mutation": name, "file": f, "existing_suite": suite, "checks": {}}
            for pid in checks:
                t0 = time.time()
                rc, out = sh([os.path.join(ROOT, "check"), pid, "quick"], cwd=ROOT)
                viol = re.findall(r"^VIOLATION property=\S+ replay=(\S+)", out, re.M)
                for p in viol:
                    if os.path.exists(p):
                        os.remove(p)
                row["checks"][pid] = {"exit": rc, "detected": rc == 1, "wall_s": round(time.time() - t0, 1)}
            results.append(row)
            print("%-36s %-12s %s" % (name, suite, " ".join("%s:%s" % (p, "DETECTED" if r["detected"] else "missed(exit %d)" % r["exit"]) for p, r in row["checks"].items())), flush=True)
        finally:
            open(path, "w").write(src)
    assert clean(), "/repo dirty after run"
    os.makedirs(os.path.join(ROOT, "notes"), exist_ok=True)
    if not names:
        json.dump(results, open(os.path.join(ROOT, "notes", "selfmutate.json"), "w"), indent=1)
    return 0


if __name__ == "__main__":
    sys.exit(main(sys.argv))
