#!/usr/bin/env python3
"""Parallel sweep of the seeded changes on private copies (neither /repo nor /verif is touched while it runs).

  tools/psweep.py [-j N] [tier] [substring]

Every worker owns /tmp/psw/w<i>/repo (a scratch git worktree of /repo's HEAD) and /tmp/psw/w<i>/verif (a copy of the
committed-or-not working files of /verif whose harness/go.mod points at that worktree).  For every seeded change whose
directory name contains <substring> it applies the patch to its worktree, runs the check of the change's own property
there, undoes the patch, and reports like `seedtest.py sweep`.  The results are merged into seeded/SWEEP.json at the
end; the worktrees and copies are removed.
"""
import json, os, queue, re, shutil, subprocess, sys, threading, time

ROOT = os.path.dirname(os.path.dirname(os.path.abspath(__file__)))
REPO = "/repo"
BASE = os.environ.get("PSWEEP_BASE", "/tmp/psw")
ENV = dict(os.environ, GOFLAGS="-mod=mod", GOPROXY="off", GOSUMDB="off", GOTOOLCHAIN="local")


def sh(cmd, cwd=None, env=None, timeout=7200):
    p = subprocess.run(cmd, cwd=cwd, env=env or ENV, stdout=subprocess.PIPE, stderr=subprocess.STDOUT, text=True, timeout=timeout, errors="replace")
    return p.returncode, p.stdout


GITLOCK = threading.Lock()


def setup(i):
    b = os.path.join(BASE, "w%d" % i)
    with GITLOCK:  # concurrent `git worktree add` calls trip over each other's administrative files
        sh(["git", "-C", REPO, "worktree", "remove", "--force", os.path.join(b, "repo")])
        shutil.rmtree(b, ignore_errors=True)
        os.makedirs(b)
        rc, out = sh(["git", "-C", REPO, "worktree", "add", "-q", "--detach", os.path.join(b, "repo"), "HEAD"])
    assert rc == 0, out
    v = os.path.join(b, "verif")
    os.makedirs(v)
    for name in ["check", "checks.json", "known_findings.txt"]:
        shutil.copy2(os.path.join(ROOT, name), os.path.join(v, name))
    shutil.copytree(os.path.join(ROOT, "harness"), os.path.join(v, "harness"),
                    ignore=shutil.ignore_patterns("testdata", ".build", "build", "root"))
    # committed fuzz/regress corpora are needed by the regression tier
    for dirpath, dirnames, _ in os.walk(os.path.join(ROOT, "harness")):
        if os.path.basename(dirpath) == "testdata" and "fuzz" in dirnames:
            rel = os.path.relpath(dirpath, ROOT)
            shutil.copytree(os.path.join(dirpath, "fuzz"), os.path.join(v, rel, "fuzz"))
    gm = os.path.join(v, "harness", "go.mod")
    s = open(gm).read().replace("=> /repo", "=> " + os.path.join(b, "repo"))
    open(gm, "w").write(s)
    return b


def teardown(i):
    b = os.path.join(BASE, "w%d" % i)
    sh(["git", "-C", REPO, "worktree", "remove", "--force", os.path.join(b, "repo")])
    shutil.rmtree(b, ignore_errors=True)


def run_one(b, name, tier):
    d = os.path.join(ROOT, "seeded", name)
    meta = json.load(open(os.path.join(d, "meta.json")))
    repo = os.path.join(b, "repo")
    rc, out = sh(["git", "-C", repo, "apply", os.path.join(d, "patch.diff")])
    if rc != 0:
        return {"seeded": name, "property": meta["property"], "detected_by": "PATCH-DOES-NOT-APPLY", "exits": {}, "tier": tier}
    res = {}
    try:
        for pid in meta.get("checked_by") or [meta["property"]]:
            env = dict(ENV, VERIF_EVIDENCE_DIR=os.path.join(b, "evidence"), VERIF_REPLAYS_DIR=os.path.join(b, "replays"))
            rc, out = sh([os.path.join(b, "verif", "check"), pid, tier], cwd=os.path.join(b, "verif"), env=env)
            viol = re.findall(r"^VIOLATION property=(\S+) replay=(\S+)", out, re.M)
            res[pid] = {"exit": rc, "detected": rc == 1 and bool(viol)}
    finally:
        sh(["git", "-C", repo, "checkout", "--", "."])
        sh(["git", "-C", repo, "clean", "-fdq", "--", "."])
        shutil.rmtree(os.path.join(b, "replays"), ignore_errors=True)
    det = [p for p, r in res.items() if r["detected"]]
    return {"seeded": name, "property": meta["property"], "detected_by": ",".join(det) or "MISSED",
            "exits": {p: r["exit"] for p, r in res.items()}, "tier": tier}


def main(argv):
    args = argv[1:]
    n = 4
    if args and args[0] == "-j":
        n = int(args[1])
        args = args[2:]
    tier = args[0] if args else "quick"
    only = args[1] if len(args) > 1 else ""
    base = os.path.join(ROOT, "seeded")
    names, rows = [], {}
    for name in sorted(os.listdir(base)):
        d = os.path.join(base, name)
        if not os.path.exists(os.path.join(d, "patch.diff")) or only not in name:
            continue
        meta = json.load(open(os.path.join(d, "meta.json")))
        if meta.get("obsolete") and not os.environ.get("PSWEEP_INCLUDE_OBSOLETE"):
            rows[name] = {"seeded": name, "property": meta["property"], "detected_by": "obsolete", "note": meta["obsolete"]}
            print("%-28s property=%s obsolete" % (name, meta["property"]), flush=True)
            continue
        names.append(name)
    q = queue.Queue()
    for nm in names:
        q.put(nm)
    lock = threading.Lock()

    def worker(i):
        b = setup(i)
        try:
            while True:
                try:
                    nm = q.get_nowait()
                except queue.Empty:
                    return
                row = run_one(b, nm, tier)
                with lock:
                    rows[nm] = row
                    print("%-28s property=%s detected_by=%s exits=%s" % (nm, row["property"], row["detected_by"], row["exits"]), flush=True)
        finally:
            teardown(i)

    t0 = time.time()
    ths = [threading.Thread(target=worker, args=(i,)) for i in range(min(n, max(1, len(names))))]
    for t in ths:
        t.start()
    for t in ths:
        t.join()
    shutil.rmtree(BASE, ignore_errors=True)
    sh(["git", "-C", REPO, "worktree", "prune"])
    out = os.path.join(base, "SWEEP.json")
    table = {}
    if os.path.exists(out):
        table = {r["seeded"]: r for r in json.load(open(out))}
    table.update(rows)
    json.dump([table[k] for k in sorted(table)], open(out, "w"), indent=1)
    missed = [r["seeded"] for r in rows.values() if r["detected_by"] in ("MISSED", "PATCH-DOES-NOT-APPLY")]
    print("swept %d in %.0f s; not detected: %s" % (len(rows), time.time() - t0, missed or "none"), flush=True)
    return 0


if __name__ == "__main__":
    sys.exit(main(sys.argv))
