#!/usr/bin/env python3
"""Runs checks against a seeded change (a patch that breaks a property while passing the existing suite).

  tools/seedtest.py verify <dir>            confirm the claim in a scratch worktree: demo passes without, fails with,
                                            existing suite passes with the patch
  tools/seedtest.py run <dir> [ids...]      apply <dir>/patch.diff to /repo, run ./check <id> quick for the property
                                            (and the ids given), always undo the patch afterwards
  tools/seedtest.py sweep [quick]           every directory under /verif/seeded: run its own property's check,
                                            print the detection table

<dir> holds patch.diff, demo_test.go (or other demo), meta.json.
"""
import json
import os
import re
import shutil
import subprocess
import sys
import time

ROOT = os.path.dirname(os.path.dirname(os.path.abspath(__file__)))
REPO = "/repo"
ENV = dict(os.environ, GOFLAGS="-mod=mod", GOPROXY="off", GOSUMDB="off", GOTOOLCHAIN="local",
           VERIF_EVIDENCE_DIR=os.path.join(ROOT, ".build", "mutant-evidence"), VERIF_REPLAYS_DIR=os.path.join(ROOT, ".build", "mutant-replays"))


def sh(cmd, cwd=None, timeout=1800):
    p = subprocess.run(cmd, cwd=cwd, env=ENV, shell=isinstance(cmd, str), stdout=subprocess.PIPE, stderr=subprocess.STDOUT, text=True, timeout=timeout)
    return p.returncode, p.stdout


def repo_clean():
    rc, out = sh("git status --short", cwd=REPO)
    return out.strip() == ""


def verify(d):
    d = os.path.abspath(d)
    meta = json.load(open(os.path.join(d, "meta.json")))
    wt = "/tmp/seedverify-%d" % os.getpid()
    sh(["git", "-C", REPO, "worktree", "add", "-q", "--detach", wt, "HEAD"])
    res = {}
    try:
        demo_dir = os.path.join(wt, meta.get("demo_dir", ".") or ".")
        demo = os.path.join(demo_dir, "zz_seeded_demo_test.go")
        shutil.copyfile(os.path.join(d, "demo_test.go"), demo)
        pkg = "./" + (meta.get("demo_dir", ".") or ".").strip("./") if (meta.get("demo_dir", ".") or ".").strip("./") else "."
        names = re.findall(r"^func (Test\w+)\(", open(demo).read(), re.M)
        only = ["-run", "^(%s)$" % "|".join(names)]
        race = ["-race"] if "-race" in meta.get("demo_run", "") else []  # a demo of a data race needs the detector
        rc0, out0 = sh(["go", "test", "-vet=off", "-count=1"] + race + only + [pkg], cwd=wt)
        res["demo_passes_without_patch"] = rc0 == 0
        rc, out = sh(["git", "apply", os.path.join(d, "patch.diff")], cwd=wt)
        res["patch_applies"] = rc == 0
        if rc == 0:
            rc1, out1 = sh(["go", "test", "-vet=off", "-count=1"] + race + only + [pkg], cwd=wt)
            res["demo_fails_with_patch"] = rc1 != 0 and "FAIL" in out1 and "[build failed]" not in out1
            os.remove(demo)
            rc2, out2 = sh(["go", "test", "-vet=off", "-count=1", ".", "./pkg/binding", "./pkg/handlers", "./pkg/render"], cwd=wt)
            res["suite_passes_with_patch"] = rc2 == 0
            if rc2 != 0:
                res["suite_output"] = out2[-1500:]
            rc3, _ = sh(["go", "build", "-tags", "verif", "./..."], cwd=wt)
            res["builds_with_hooks"] = rc3 == 0
        else:
            res["apply_output"] = out
        if not res.get("demo_passes_without_patch"):
            res["demo_output"] = out0[-1500:]
    finally:
        sh(["git", "-C", REPO, "worktree", "remove", "--force", wt])
        shutil.rmtree(wt, ignore_errors=True)
    return res


def run(d, ids, tier="quick"):
    meta = json.load(open(os.path.join(d, "meta.json")))
    if not ids:
        ids = [meta["property"]]
    if not repo_clean():
        print("refusing: /repo is not clean")
        return None
    results = {}
    rc, out = sh(["git", "-C", REPO, "apply", os.path.abspath(os.path.join(d, "patch.diff"))])
    if rc != 0:
        print("patch does not apply:", out)
        return None
    try:
        for pid in ids:
            t0 = time.time()
            rc, out = sh([os.path.join(ROOT, "check"), pid, tier], cwd=ROOT, timeout=7200)
            viol = re.findall(r"^VIOLATION property=(\S+) replay=(\S+)", out, re.M)
            results[pid] = {"exit": rc, "detected": rc == 1 and bool(viol), "wall_s": round(time.time() - t0, 1),
                            "first_lines": "\n".join(out.splitlines()[:12])[:1500]}
            # the replays written while the patch was applied are not evidence about the real tree
            for _, path in viol:
                if os.path.exists(path) and "/replays/" in path:
                    os.remove(path)
    finally:
        sh(["git", "-C", REPO, "checkout", "--", "."])
        sh(["git", "-C", REPO, "clean", "-fdq", "--", "."])
    assert repo_clean(), "/repo not clean after undo"
    return results


def main(argv):
    if len(argv) < 2:
        print(__doc__)
        return 2
    if argv[1] == "verify":
        print(json.dumps(verify(argv[2]), indent=1))
        return 0
    if argv[1] == "run":
        res = run(argv[2], argv[3:])
        print(json.dumps(res, indent=1))
        return 0
    if argv[1] == "sweep":
        tier = argv[2] if len(argv) > 2 else "quick"
        only = argv[3] if len(argv) > 3 else ""
        base = os.path.join(ROOT, "seeded")
        out = os.path.join(base, "SWEEP.json")
        table = {}
        if os.path.exists(out):
            table = {r["seeded"]: r for r in json.load(open(out))}
        for name in sorted(os.listdir(base)):
            d = os.path.join(base, name)
            if not os.path.exists(os.path.join(d, "patch.diff")) or only not in name:
                continue
            meta = json.load(open(os.path.join(d, "meta.json")))
            if meta.get("obsolete"):
                table[name] = {"seeded": name, "property": meta["property"], "detected_by": "obsolete", "note": meta["obsolete"]}
                print("%-28s property=%s obsolete" % (name, meta["property"]), flush=True)
                json.dump([table[k] for k in sorted(table)], open(out, "w"), indent=1)
                continue
            ids = meta.get("checked_by") or [meta["property"]]
            res = run(d, ids, tier)
            det = [p for p, r in (res or {}).items() if r["detected"]]
            table[name] = {"seeded": name, "property": meta["property"], "detected_by": ",".join(det) or "MISSED",
                           "exits": {p: r["exit"] for p, r in (res or {}).items()}, "tier": tier}
            print("%-28s property=%s detected_by=%s exits=%s" % (name, meta["property"], table[name]["detected_by"], table[name]["exits"]), flush=True)
            json.dump([table[k] for k in sorted(table)], open(out, "w"), indent=1)
        return 0
    return 2


if __name__ == "__main__":
    sys.exit(main(sys.argv))
